"""E1 - forest explorer: explicit-state search over mutation histories of the *real* anytree classes,
with deviation-bounded injection of hook exceptions (see DESIGN.md section 2.1 / A.1).

State      : for every label (parent label | None, tuple of children labels), read through the public
             attributes; optionally refined by two hidden bits per node (lazily created private slots).
Transition : one real structural call (parent assignment, children assignment, children deletion, a read
             that creates the lazy list, constructor calls) executed on a freshly rebuilt universe.
Deviation  : "this hook invocation raises".
"""
import itertools
import sys

from . import core

EIGHT = (
    "_pre_detach",
    "_post_detach",
    "_pre_attach",
    "_post_attach",
    "_pre_detach_children",
    "_post_detach_children",
    "_pre_attach_children",
    "_post_attach_children",
)
PRE = frozenset(h for h in EIGHT if h.startswith("_pre"))
LABELS = "abcdefgh"


class InjectedFault(Exception):
    """Raised by a harness hook when the fault plan says so."""


FAULT_FLAVOUR = ["plain"]  # "plain": InjectedFault; "tree": a TreeError subclass; "loop": a LoopError subclass
_FLAVOURS = {}


def fault_class():
    """A validating node class typically raises TreeError / ValueError from its hooks: the class of the injected
    exception is part of the alphabet (roll-back code must not depend on it)."""
    fl = FAULT_FLAVOUR[0]
    if fl == "plain":
        return InjectedFault
    if fl not in _FLAVOURS:
        import anytree

        base = {"tree": anytree.TreeError, "loop": anytree.LoopError, "value": ValueError, "attr": AttributeError,
                "assert": AssertionError, "recursion": RecursionError, "stopiter": StopIteration, "key": KeyError}[fl]
        _FLAVOURS[fl] = type("Injected_" + fl, (InjectedFault, base), {})
    return _FLAVOURS[fl]


class Duck(object):
    """Looks a bit like a node but is not one."""

    parent = None
    children = ()
    name = "duck"


class ReadOnlyDuck(object):
    """Has parent / children like pathlib.PurePath has: read-only properties.  Not a node either."""

    parent = property(lambda self: None)
    children = property(lambda self: ())
    name = "ro-duck"


CUR = [None]  # the active universe (hooks of all harness classes report to it)


def _mk_hook(name):
    def hook(self, arg):
        CUR[0].hook(name, self, arg)
        # what a hook returns means nothing: a falsy non-None value (a count, an empty tuple) must not veto or change anything
        return 0 if name.startswith("_pre") else ()

    hook.__name__ = name
    return hook


HOOKS = {name: _mk_hook(name) for name in EIGHT}
_CLASSES = {}


def classes():
    """Harness node classes, built on first use (anytree must already be importable)."""
    if _CLASSES:
        return _CLASSES
    import anytree
    from anytree import AnyNode, LightNodeMixin, Node, NodeMixin, SymlinkNode

    def _rep(self):
        # the text of a node's repr is the user's business: it may contain anything, e.g. '%' (error messages are built from it)
        return "<%s 100%% %%s %%(x)d>" % (CUR[0].label_of(self) if CUR[0] is not None else "?",)

    _CLASSES["mixin"] = type("PlainMixin", (NodeMixin,), dict(HOOKS, __repr__=_rep))
    _CLASSES["light"] = type("PlainLight", (LightNodeMixin,), dict(HOOKS, __slots__=(), __repr__=_rep))
    _CLASSES["node"] = type("HNode", (Node,), dict(HOOKS))
    _CLASSES["anynode"] = type("HAnyNode", (AnyNode,), dict(HOOKS))
    _CLASSES["symlink"] = type("HSymlink", (SymlinkNode,), dict(HOOKS))
    # classes WITHOUT harness hooks (the library's own one-frame default hooks): used for stack-exhaustion faults, where
    # the deep harness hooks would always be the first place to run out of stack
    _CLASSES["bare"] = type("BareMixin", (NodeMixin,), {})
    _CLASSES["bare:light"] = type("BareLight", (LightNodeMixin,), {"__slots__": ()})
    _CLASSES["TreeError"] = anytree.TreeError
    _CLASSES["LoopError"] = anytree.LoopError
    from . import traps

    traps.install(_CLASSES, HOOKS)
    return _CLASSES


# kind -> per-label class keys (cycled)
KINDS = {
    "mixin": ("mixin",),
    "light": ("light",),
    "node": ("node",),
    "anynode": ("anynode",),
    "symlink": ("symlink",),
    "mixed": ("node", "anynode", "symlink", "mixin", "node"),
    "cross": ("mixin", "light"),
    "symmix": ("node", "node", "symlink>a", "symlink>c", "symlink>b"),
    "symlight": ("light", "symlink>a", "light", "node"),  # a link whose target is a LightNodeMixin node, next to both mixins
    "bare": ("bare",),
    "bare:light": ("bare:light",),
    "named": ("named",),
    "named:light": ("named:light",),
    # hooks installed LATE: the class is created without hooks, nodes of it are linked and unlinked once, and only then the
    # hook methods are put on the class (instrumenting a class after a tree was built; decisions cached per class)
    "late": ("late",),
    "late:light": ("late:light",),
    # hooks stored on the INSTANCES (node._pre_detach = callback), the class has none
    "insthook": ("insthook",),
    # links whose targets are nodes of an adversarial class (and the plain twin): what a link forwards must not depend on
    # the target's truth value, length or comparison
    "linkto:named": ("named", "named", "symlink>a", "symlink>b"),
    "linkto:falsy": ("trap:falsy", "trap:falsy", "symlink>a", "symlink>b"),
    "linkto:len0": ("trap:len0", "trap:len0", "symlink>a", "symlink>b"),
    "linkto:eq": ("trap:eq", "trap:eq", "symlink>a", "symlink>b"),
    "linkto:all": ("trap:all", "trap:all", "symlink>a", "symlink>b"),
    # Node objects whose names (hence reprs and error messages) contain '%'
    "pctnode": ("pctnode",),
    # the library's own Node and SymlinkNode classes WITHOUT harness hooks (hook methods the library itself may define on
    # its classes are overridden in every other universe), links pointing into the same universe
    "baresym": ("barenode", "barenode", "baresymlink>a", "baresymlink>b", "baresymlink>c"),
}


def kind_classes(kind, n):
    if kind.startswith("trap:"):
        return (kind,) * n
    base = KINDS[kind]
    return tuple(base[i % len(base)] for i in range(n))


def is_nodemixin_kind(ckey):
    """Does the class behind this key derive from NodeMixin (as opposed to LightNodeMixin)?"""
    return not (ckey == "light" or ":light" in ckey)


class Universe(object):
    def __init__(self, kind, n):
        self.kind = kind
        self.labels = list(LABELS[:n])
        self.ckeys = list(kind_classes(kind, n))
        self.nodes = {}
        self.lab = {}
        self.keep = []  # external objects kept alive (symlink targets, ducks)
        self.log = []
        self.k = 0
        self.raise_at = frozenset()
        self.persist = None  # (hook, label, from_index)
        self.faults = []
        self.snapfn = None
        self.reenter = None
        self.reentered = []
        CUR[0] = self
        cls = classes()
        if kind in ("late", "late:light"):
            self.late_cls = self._late_class(kind)
        for lbl, ck in zip(self.labels, self.ckeys):
            self._new(lbl, ck, cls)

    # -- construction -----------------------------------------------------------------------
    @staticmethod
    def _late_class(kind):
        import anytree

        if kind == "late":
            k = type("LateMixin", (anytree.NodeMixin,), {})
        else:
            k = type("LateLight", (anytree.LightNodeMixin,), {"__slots__": ()})
        # every structural entry point is used once on throw-away nodes of this very class while it has no hooks
        x, y, z = k(), k(), k()
        x.parent = y
        x.parent = z
        x.parent = None
        y.children = [x, z]
        y.children = [z]
        del y.children
        for name, fn in HOOKS.items():
            setattr(k, name, fn)
        return k

    def _new(self, lbl, ck, cls, parent=None, children=None):
        kw = {}
        if parent is not None:
            kw["parent"] = parent
        if children is not None:
            kw["children"] = children
        def make(klass, *args):
            # object creation split in two so that the node has its label while its constructor runs
            # (hooks fired by parent=/children= arguments report it) - same as klass(*args, **kw)
            node = klass.__new__(klass)
            self.nodes[lbl] = node
            self.lab[id(node)] = lbl
            node.__init__(*args, **kw)
            return node

        if ck.startswith("symlink") or ck.startswith("baresymlink"):
            if ">" in ck:
                target = self.nodes[ck.split(">")[1]]
            else:
                target = cls["node"]("t_" + lbl)
                self.keep.append(target)
            if ck.startswith("bare"):
                import anytree

                node = make(anytree.SymlinkNode, target)
            else:
                node = make(cls["symlink"], target)
        elif ck == "barenode":
            import anytree

            node = make(anytree.Node, lbl)
        elif ck == "node":
            node = make(cls["node"], lbl)
        elif ck == "pctnode":
            node = make(cls["node"], lbl + " 100% %s %(x)d")
        elif ck == "anynode":
            kw["id"] = lbl
            kw["name"] = lbl  # Node.__repr__ (used in error messages) needs a name on every ancestor of a Node
            node = make(cls["anynode"])
        elif ck in ("mixin", "light", "bare", "bare:light"):
            if kw:
                raise core.HarnessError("mixin classes have no constructor arguments")
            node = make(cls[ck])
        elif ck in ("late", "late:light"):
            node = make(self.late_cls)
        elif ck == "insthook":
            import functools

            node = make(cls["bare"])
            for name, fn in HOOKS.items():
                setattr(node, name, functools.partial(fn, node))
        else:
            node = make(cls[ck], lbl)
        self.nodes[lbl] = node
        self.lab[id(node)] = lbl
        return node

    # -- hooks --------------------------------------------------------------------------------
    def label_of(self, obj):
        if obj is None:
            return None
        return self.lab.get(id(obj), "?" + type(obj).__name__)

    def hook(self, name, node, arg):
        i = self.k
        self.k += 1
        nl = self.label_of(node)
        if type(arg) is tuple:   # (a node may itself be a tuple: only the plain tuple of the children hooks is a sequence)
            al = tuple(self.label_of(x) for x in arg)
        else:
            al = self.label_of(arg)
        if self.snapfn is not None:
            self.log.append((name, nl, al, self.snapfn()))
        else:
            self.log.append((name, nl, al))
        if self.reenter and i in self.reenter:
            # a hook that changes the tree itself (re-entrant call) instead of raising
            op = self.reenter[i]
            self.reentered.append(i)
            try:
                self.apply(op)
            except Exception:  # noqa - a refused re-entrant call is simply refused
                pass
        p = self.persist
        if i in self.raise_at or (p is not None and i >= p[2] and name == p[0] and nl == p[1]):
            self.faults.append(i)
            raise fault_class()("%s(%s) #%d" % (name, nl, i))

    def arm(self, raise_at=(), persist=None, snap=False, reenter=None):
        self.reenter = dict(reenter) if reenter else None
        self.reentered = []
        self.log = []
        self.k = 0
        self.faults = []
        self.raise_at = frozenset(raise_at)
        self.persist = tuple(persist) if persist else None
        self.snapfn = self.state if snap else None

    # -- values -----------------------------------------------------------------------------
    def val(self, tok):
        if tok is None:
            return None
        if tok in self.nodes:
            return self.nodes[tok]
        if tok == "#5":
            return 5
        if tok == "#s":
            return "x"
        if tok == "#0":
            return 0
        if tok == "#e":
            return ""
        if tok == "#t":
            return ()
        if tok == "#duck":
            d = Duck()
            self.keep.append(d)
            return d
        if tok == "#ro":
            d = ReadOnlyDuck()
            self.keep.append(d)
            return d
        raise core.HarnessError("unknown token %r" % (tok,))

    # -- operations ---------------------------------------------------------------------------
    def apply(self, op):
        kind = op[0]
        if kind == "setp":
            self.nodes[op[1]].parent = self.val(op[2])
        elif kind == "delc":
            del self.nodes[op[1]].children
        elif kind == "setc":
            xs, mode = op[2], op[3]
            if xs == "#None":
                value = None
            elif xs == "#7":
                value = 7
            elif xs == "#str":
                value = "pq"
            else:
                vals = [self.val(x) for x in xs]
                if mode == "list":
                    value = vals
                elif mode == "tuple":
                    value = tuple(vals)
                elif mode == "gen":
                    value = (v for v in vals)
                else:
                    raise core.HarnessError("mode %r" % (mode,))
            self.nodes[op[1]].children = value
        elif kind == "read":
            self.nodes[op[1]].children  # creates the lazy list
        elif kind == "new":
            # constructor sweep: ("new", label, classkey, parent label|None, children labels|None)
            lbl, ck, p, xs = op[1], op[2], op[3], op[4]
            self.labels.append(lbl)
            self.ckeys.append(ck)
            cls = classes()
            self._new(lbl, ck, cls, parent=self.val(p), children=None if xs is None else [self.val(x) for x in xs])
        else:
            raise core.HarnessError("unknown op %r" % (op,))

    # -- observation ----------------------------------------------------------------------------
    def state(self):
        """Abstract state through the public API: tuple over labels of (parent, children)."""
        out = []
        lab = self.label_of
        for lbl in self.labels:
            node = self.nodes.get(lbl)
            if node is None:
                out.append(("-", ()))
                continue
            out.append((lab(node.parent), tuple(lab(c) for c in node.children)))
        return tuple(out)

    def hidden(self):
        """Hidden-state fingerprint (peek only; used for de-duplication, never by an oracle): which private
        attributes exist on each node and - for anything but the parent/children links themselves - their value
        with node references replaced by labels.  For the pinned code this is two bits per node (the lazily
        created link attributes); a cache added to the node objects makes the key finer automatically, so the
        search explores its states too."""
        out = []
        for lbl in self.labels:
            node = self.nodes.get(lbl)
            if node is None:
                out.append(0)
                continue
            items = []
            try:
                d = object.__getattribute__(node, "__dict__")
            except AttributeError:
                d = None
            if d is not None:
                for k in d:
                    if k.startswith("_"):
                        items.append((k, d[k]))
            for klass in type(node).__mro__:
                for sl in klass.__dict__.get("__slots__", ()) if isinstance(klass.__dict__.get("__slots__", ()), (list, tuple)) else ():
                    name = sl if not sl.startswith("__") or sl.endswith("__") else "_%s%s" % (klass.__name__.lstrip("_"), sl)
                    if not name.startswith("_"):
                        continue
                    try:
                        items.append((name, object.__getattribute__(node, name)))
                    except AttributeError:
                        pass
            bits = 0
            extra = []
            for k, v in items:
                if k.endswith("__parent"):
                    bits |= 1
                elif k.endswith("__children"):
                    bits |= 2
                else:
                    extra.append((k, self._canon(v)))
            out.append(bits if not extra else (bits, tuple(sorted(extra))))
        return tuple(out)

    def _canon(self, v, depth=0):
        if v is None or isinstance(v, (bool, int, str, float)):
            return v
        if id(v) in self.lab:
            return "@" + self.lab[id(v)]
        if depth > 4:
            return "..."
        if isinstance(v, (list, tuple)):
            return tuple(self._canon(x, depth + 1) for x in v)
        if isinstance(v, (set, frozenset)):
            return ("set",) + tuple(sorted((self._canon(x, depth + 1) for x in v), key=repr))
        if isinstance(v, dict):
            return ("dict",) + tuple(sorted(((self._canon(k, depth + 1), self._canon(x, depth + 1)) for k, x in v.items()), key=repr))
        return "<%s>" % type(v).__name__


class Exec(object):
    """One execution: witness replayed, one op applied under a fault plan, everything observed."""

    __slots__ = (
        "kind", "n", "labels", "pre", "op", "raise_at", "persist", "outcome", "exc", "log", "post",
        "hid_pre", "hid_post", "faults", "u", "mro",
    )


_MODSTATE = {}
_CALL_TIMEOUTS = [0]


def reset_module_state():
    """Own process-wide mutable state of anytree.node.*: module-level and class-level containers are restored to
    what they were at import time before every execution, so that executions are independent of each other
    (as one resets functools caches in a long-lived worker).  State that survives *within* one history is still
    explored - see the faulted multi-step histories."""
    import sys as _sys

    if not _MODSTATE:
        for mname, mod in list(_sys.modules.items()):
            if not mname.startswith("anytree.node") or mod is None:
                continue
            for gname, val in list(vars(mod).items()):
                if isinstance(val, (set, dict, list)) and not gname.startswith("__"):
                    _MODSTATE[(mname, gname, None)] = (val, type(val)(val))
                elif isinstance(val, type) and getattr(val, "__module__", "") == mname:
                    for aname, aval in list(vars(val).items()):
                        if isinstance(aval, (set, dict, list)) and not aname.startswith("__"):
                            _MODSTATE[(mname, gname, aname)] = (aval, type(aval)(aval))
        _MODSTATE[("", "", "")] = (None, None)
    for key, (live, snap) in _MODSTATE.items():
        if live is None:
            continue
        if isinstance(live, list):
            live[:] = snap
        else:
            live.clear()
            live.update(snap)


def rebuild(kind, n, witness):
    """Fresh universe + replay.  A witness step is an op, or ("fault", op, raise_at, persist): an op executed
    under a fault plan (multi-step histories in which an earlier call was aborted by a hook)."""
    reset_module_state()
    u = Universe(kind, n)
    for w in witness:
        if w and w[0] == "fault":
            u.arm(w[2], w[3])
            w = w[1]
        try:
            with core.time_limit(1.0):
                u.apply(w)
        except (Exception, core.CaseTimeout):  # noqa - a refused call may be part of a witness (it can flip hidden bits)
            pass
        u.raise_at = frozenset()
        u.persist = None
    return u


def _depth():
    d, f = 0, sys._getframe()
    while f is not None:
        d += 1
        f = f.f_back
    return d


def execute(kind, n, witness, op, pre=None, raise_at=(), persist=None, snap=False, reenter=None, stack_budget=None):
    u = rebuild(kind, n, witness)
    ex = Exec()
    ex.kind, ex.n, ex.op, ex.raise_at, ex.persist, ex.u = kind, n, op, tuple(raise_at), persist, u
    ex.hid_pre = u.hidden()
    ex.pre = pre
    from . import traps

    del traps.TRAPLOG[:]  # special-method invocations are attributed to the call under test, not to the witness replay
    u.arm(raise_at, persist, snap, reenter)
    ex.exc = None
    ex.mro = ()
    old_limit = sys.getrecursionlimit()
    try:
        with core.time_limit(1.0 if _CALL_TIMEOUTS[0] < 3 else 0.2):
            if stack_budget is not None:
                # resource fault: only `stack_budget` more frames are available to the call (RecursionError may strike
                # at any call inside the library - between two statements that belong together, for instance)
                sys.setrecursionlimit(_depth() + stack_budget)
            try:
                u.apply(op)
            finally:
                sys.setrecursionlimit(old_limit)
        ex.outcome = "ok"
    except (Exception, core.CaseTimeout) as exc:  # noqa - everything the call raises is an observation
        if isinstance(exc, core.CaseTimeout):
            _CALL_TIMEOUTS[0] += 1
        ex.outcome = "InjectedFault" if isinstance(exc, InjectedFault) else type(exc).__name__
        ex.exc = exc
        ex.mro = () if isinstance(exc, InjectedFault) else tuple(c.__name__ for c in type(exc).__mro__)
    u.raise_at = frozenset()
    u.persist = None
    u.snapfn = None
    u.reenter = None
    ex.faults = tuple(u.faults)
    ex.log = u.log
    u.log = []
    ex.hid_post = u.hidden()
    ex.post = u.state()
    ex.labels = list(u.labels)
    return ex


# ---------------------------------------------------------------------------------------------
# Alphabet


def ops_for(n, cfg):
    """All operations on n labels, simplest first.  cfg keys: read, nonnode, L (max children length),
    extras (dups / non-nodes / non-iterables / generators), new (constructor class keys)."""
    labels = list(LABELS[:n])
    out = []
    if cfg.get("read", True):
        for x in labels:
            out.append(("read", x))
    for x in labels:
        for p in [None] + labels:
            out.append(("setp", x, p))
    if cfg.get("nonnode", True):
        for x in labels:
            for v in ("#5", "#s", "#duck", "#0", "#e", "#t", "#ro"):   # truthy and falsy non-nodes
                out.append(("setp", x, v))
    for x in labels:
        out.append(("delc", x))
    L = cfg.get("L", n)
    for x in labels:
        for k in range(L + 1):
            for xs in itertools.permutations(labels, k):
                out.append(("setc", x, xs, "list"))
    if cfg.get("extras", True):
        for x in labels:
            for y in labels:
                out.append(("setc", x, (y, y), "list"))
            for y, z in itertools.permutations(labels, 2):
                out.append(("setc", x, (y, z, y), "tuple"))
            if cfg.get("nonnode", True):
                out.append(("setc", x, ("#5",), "list"))
                out.append(("setc", x, ("#0",), "list"))
                out.append(("setc", x, ("#e", "#t"), "tuple"))
                for y in labels:
                    out.append(("setc", x, (y, "#5"), "list"))
                    out.append(("setc", x, ("#s", y), "list"))
                    out.append(("setc", x, (y, "#ro"), "list"))
                out.append(("setc", x, "#None", "list"))
                out.append(("setc", x, "#7", "list"))
                out.append(("setc", x, "#str", "list"))
            for k in range(min(2, L) + 1):
                for xs in itertools.permutations(labels, k):
                    out.append(("setc", x, xs, "gen"))
    for ck in cfg.get("new", ()):
        z = LABELS[n]
        for p in [None] + labels:
            out.append(("new", z, ck, p, None))
            for k in range(0, min(2, L) + 1):
                for xs in itertools.permutations(labels, k):
                    out.append(("new", z, ck, p, xs))
        if cfg.get("extras", True):
            for y in labels:
                out.append(("new", z, ck, None, (y, y)))
                out.append(("new", z, ck, y, (y,)))
            if cfg.get("nonnode", True):
                for v in ("#5", "#0", "#e", "#t"):   # constructor with a non-node parent, truthy or falsy
                    out.append(("new", z, ck, v, None))
                out.append(("new", z, ck, None, ("#0",)))
    return out


def initial_state(n):
    return tuple((None, ()) for _ in range(n))


def key_of(state, hid, hidden):
    return (state, hid) if hidden else state


# ---------------------------------------------------------------------------------------------
# Breadth-first discovery of reachable states (fault-free transitions), level-parallel


def successors(kind, n, chunk, cfg, hidden):
    """chunk: list of (index, witness).  Returns [(index, [(key, state, opindex), ...])]."""
    ops = [o for o in ops_for(n, cfg) if o[0] != "new"]
    out = []
    for idx, witness in chunk:
        succ = []
        seen = set()
        for oi, op in enumerate(ops):
            ex = execute(kind, n, witness, op)
            if state_invariant(ex.post, ex.labels) is not None:
                # a corrupt forest is reported by the judges on this transition; it is not a state to
                # explore from (lists could grow without bound and the search would not terminate)
                continue
            k = key_of(ex.post, ex.hid_post, hidden)
            if k not in seen:
                seen.add(k)
                succ.append((k, ex.post, oi))
        out.append((idx, succ))
    return out


MAXSTATES = 6000      # more than twice the largest space of the unchanged tree (2721 at N = 5)
KEEP_WHEN_CAPPED = 600   # states (shortest witnesses first) that are still judged when the cap was hit


def discover(pool, kind, n, cfg, hidden, maxstates=None):
    """BFS.  Returns list of (key, state, witness) in discovery order (deterministic)."""
    ops = [o for o in ops_for(n, cfg) if o[0] != "new"]
    first = pool.call("mc.forest", "probe_initial", kind=kind, n=n, hidden=hidden)
    states = [(first[0], first[1], ())]
    index = {first[0]: 0}
    frontier = [0]
    while frontier:
        chunks = core.shard([(i, states[i][2]) for i in frontier], core.NPROC * 2)
        res = pool.run([("mc.forest", "successors", dict(kind=kind, n=n, chunk=c, cfg=cfg, hidden=hidden)) for c in chunks])
        flat = {}
        for part in res:
            if isinstance(part, core.Tally):
                raise core.HarnessError(part.errors[0] if part.errors else "successors failed")
            for idx, succ in part:
                flat[idx] = succ
        nxt = []
        for i in frontier:
            for k, st, oi in flat[i]:
                k = _tup(k)
                if k not in index:
                    index[k] = len(states)
                    states.append((k, _tup(st), states[i][2] + (ops[oi],)))
                    nxt.append(index[k])
                    if len(states) >= (maxstates or MAXSTATES):
                        # A change to the library that adds history-dependent private state makes the fingerprinted space
                        # explode (the unchanged tree has 19 / 195 / 2721 states at N = 3 / 4 / 5).  The search stops here:
                        # what was found is still judged (violations are reported), but the run can no longer be
                        # called exhaustive - without violations the runner turns this into a harness error.
                        core.CAPPED.append("%s N=%d: discovery stopped at %d states" % (kind, n, len(states)))
                        return states[:KEEP_WHEN_CAPPED]
        frontier = nxt
    return states


def _tup(x):
    if isinstance(x, list):
        return tuple(_tup(i) for i in x)
    if isinstance(x, tuple):
        return tuple(_tup(i) for i in x)
    return x


def probe_initial(kind, n, hidden):
    u = Universe(kind, n)
    hid = u.hidden()
    st = u.state()
    return key_of(st, hid, hidden), st


# ---------------------------------------------------------------------------------------------
# Fault-plan enumeration for one (state, op): default run, then deviations up to d, then persistent


def runs(kind, n, witness, pre, op, d=0, persistent=(), snap=False, want=None, reenter_menu=None, stack_budgets=None):
    """Yield Exec objects: the fault-free run, all runs with <= d one-shot hook exceptions (each
    deviation chosen among the hook invocations of the run it extends), and the persistent runs.
    `want(hookname, position)` may restrict which hooks are eligible as the FIRST deviation."""
    ex0 = execute(kind, n, witness, op, pre, snap=snap)
    yield ex0
    if d >= 1:
        stack = [((), ex0)]
        while stack:
            prefix, base = stack.pop()
            start = prefix[-1] + 1 if prefix else 0
            for i in range(start, len(base.log)):
                if not prefix and want is not None and not want(base.log[i][0]):
                    continue
                plan = prefix + (i,)
                ex = execute(kind, n, witness, op, pre, raise_at=plan, snap=snap)
                if ex.faults != plan:
                    raise core.HarnessError(
                        "fault plan %r not honoured (faults %r) on %r %r" % (plan, ex.faults, witness, op)
                    )
                yield ex
                if len(plan) < d:
                    stack.append((plan, ex))
    for i, rec in enumerate(ex0.log):
        if rec[0] in persistent:
            ex = execute(kind, n, witness, op, pre, persist=(rec[0], rec[1], i), snap=snap)
            yield ex
    if stack_budgets:
        for k in stack_budgets:
            ex = execute(kind, n, witness, op, pre, snap=snap, stack_budget=k)
            ex.raise_at = ("stack", k)
            yield ex
            if ex.outcome == "ok" and k > 8:
                break  # enough stack for the whole call: larger budgets behave the same
    if reenter_menu:
        # a hook that itself issues a structural call (here: detaches some node) at invocation i
        for i in range(len(ex0.log)):
            if len(reenter_menu) > n and not ex0.log[i][0].startswith("_pre"):
                continue  # the large menu (moves) is tried at pre hooks only
            for r in reenter_menu:
                ex = execute(kind, n, witness, op, pre, snap=snap, reenter={i: r})
                ex.raise_at = ("reenter", i) + tuple(r)
                yield ex


def check_witness(kind, n, witness, key, hidden):
    """Rebuild a state from its witness and make sure it is the state we think it is."""
    u = rebuild(kind, n, witness)
    hid = u.hidden()
    st = u.state()
    if key_of(st, hid, hidden) != key:
        raise core.HarnessError("witness %r rebuilt %r, expected %r" % (witness, key_of(st, hid, hidden), key))


# ---------------------------------------------------------------------------------------------
# C01 invariant on the public views of a universe


def forest_invariant(u):
    """Return None if parent/children views agree for all nodes known to the universe, else a reason."""
    nodes = [(lbl, u.nodes[lbl]) for lbl in u.labels if lbl in u.nodes]
    ids = {id(nd): lbl for lbl, nd in nodes}
    childlists = {}
    for lbl, nd in nodes:
        ch = nd.children
        if not isinstance(ch, tuple):
            return "%s.children is %s, not a tuple" % (lbl, type(ch).__name__)
        for c in ch:
            if id(c) not in ids:
                return "%s.children contains a foreign object %r" % (lbl, type(c).__name__)
        childlists[lbl] = ch
    for lbl, nd in nodes:
        p = nd.parent
        if p is not None and id(p) not in ids:
            return "%s.parent is a foreign object %r" % (lbl, type(p).__name__)
        for plbl, pnd in nodes:
            cnt = sum(1 for c in childlists[plbl] if c is nd)
            if p is pnd:
                if cnt != 1:
                    return "%s.parent is %s but %s occurs %d times in %s.children" % (lbl, plbl, lbl, cnt, plbl)
            elif cnt != 0:
                return "%s occurs %d times in %s.children but %s.parent is %s" % (
                    lbl, cnt, plbl, lbl, ids.get(id(p)) if p is not None else None)
    for lbl, nd in nodes:
        steps = 0
        cur = nd
        while cur.parent is not None:
            cur = cur.parent
            steps += 1
            if steps > len(nodes):
                return "parent chain of %s does not terminate" % lbl
        if nd.parent is None and nd.root is not nd:
            return "detached node %s is not its own root" % lbl
    return None


def state_invariant(state, labels):
    """The same invariant evaluated on an abstract state (used on snapshots)."""
    idx = {l: i for i, l in enumerate(labels)}
    for l in labels:
        p, ch = state[idx[l]]
        if p == "-":
            continue
        for pl in labels:
            cnt = sum(1 for c in state[idx[pl]][1] if c == l)
            if p == pl:
                if cnt != 1:
                    return "%s.parent=%s but occurs %d times in its children" % (l, pl, cnt)
            elif cnt:
                return "%s occurs in %s.children but parent is %s" % (l, pl, p)
        if p is not None and p not in idx:
            return "%s.parent is foreign %r" % (l, p)
        steps, cur = 0, l
        while state[idx[cur]][0] is not None:
            cur = state[idx[cur]][0]
            steps += 1
            if steps > len(labels):
                return "cycle through %s" % l
    return None


def fmt_state(state, labels):
    return {l: [state[i][0], list(state[i][1])] for i, l in enumerate(labels)}


def case_of(ex, witness, why=None):
    c = {
        "engine": "E1",
        "kind": ex.kind,
        "n": ex.n,
        "witness": [list(w) for w in witness],
        "op": list(ex.op),
        "raise_at": list(ex.raise_at) if not (ex.raise_at and ex.raise_at[0] in ("reenter", "stack")) else [],
        "reenter": list(ex.raise_at) if (ex.raise_at and ex.raise_at[0] == "reenter") else None,
        "stack_budget": ex.raise_at[1] if (ex.raise_at and ex.raise_at[0] == "stack") else None,
        "persistent": list(ex.persist) if ex.persist else None,
        "pre": fmt_state(ex.pre, ex.labels[: len(ex.pre)]) if ex.pre is not None else None,
        "observed": {
            "outcome": ex.outcome,
            "state": fmt_state(ex.post, ex.labels),
            "log": [list(r[:3]) for r in ex.log],
        },
    }
    if why:
        c["why"] = why
    return c
