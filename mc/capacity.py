"""Degenerate but legal sizes for the E2 properties: one very deep chain and one very wide node.

The small-shape enumeration (every ordered tree up to N nodes) cannot see a change that costs stack frames per level or
per sibling, or that behaves differently beyond a size threshold (CPython's shared small ints end at 256, list
over-allocation, chunked processing ...).  Each function below drives the public calls of one property on a chain of
height DEEP and on a node with WIDE children, under the default recursion limit (1000), and compares with the obvious
closed-form expectation.  The sizes are the ones the pinned implementation handles with a comfortable margin
(measured: everything used here still works at height 900 / width 5000).
"""
import sys

from . import core, tree

MOD = "mc.capacity"
DEEP = 700
WIDE = 3000


def _chain(kind, height, names=None):
    n = height + 1
    m = tree.Model([None] + list(range(n - 1)), [[i + 1] for i in range(n - 1)] + [[]])
    nodes = tree.build(m, tree.default_factory(kind), "topdown", names=names)
    return m, nodes


def _wide(kind, width, names=None):
    n = width + 1
    m = tree.Model([None] + [0] * width, [list(range(1, n))] + [[] for _ in range(width)])
    nodes = tree.build(m, tree.default_factory(kind), "bottomup", names=names)
    return m, nodes


def _undo(nodes):
    # take the tree apart from the top, otherwise object destruction recurses through the whole chain
    for nd in nodes:
        try:
            nd.parent = None
        except Exception:  # noqa
            pass


def _viol(t, pid, what, **kw):
    t.violation("%s: %s" % (pid, what), dict({"engine": "E2", "module": MOD, "pid": pid, "part": "capacity"}, **kw))


def _count(t):
    t.c["evaluations"] += 1
    t.c["capacity_checks"] += 1


# ---------------------------------------------------------------------------------------------------------------- C06
def c06(t):
    import anytree

    its = {"pre": anytree.PreOrderIter, "post": anytree.PostOrderIter, "level": anytree.LevelOrderIter,
           "groups": anytree.LevelOrderGroupIter, "zigzag": anytree.ZigZagGroupIter}
    for kind in ("user", "light"):
        for shape, (m, nodes) in (("chain", _chain(kind, DEEP)), ("wide", _wide(kind, WIDE))):
            idm = tree.IdMap(nodes)
            n = m.n
            if shape == "chain":
                cut, lvl = n * 2 // 3, n // 2
                configs = (("filter", {v for v in range(n) if v % 2}, set(), None), ("stop", set(), {cut}, None),
                           ("maxlevel", set(), set(), lvl), ("all", {v for v in range(n) if v % 3 == 1}, {cut}, lvl),
                           ("start hidden and stop late", {0, 1, 2}, {n - 1}, n - 1))
            else:
                configs = (("filter", {v for v in range(n) if v % 2 == 0}, set(), None), ("stop", set(), {v for v in range(n) if v % 5 == 2}, None),
                           ("maxlevel 2", set(), set(), 2), ("maxlevel 1", set(), set(), 1),
                           ("all", {v for v in range(n) if v % 3 == 1}, {v for v in range(n) if v % 7 == 3}, 2))
            for label, hidden, stopset, ml in configs:
                exp, _adm = m.restricted(0, stopset, hidden, ml)
                for name, it in its.items():
                    kw = {}
                    if hidden:
                        kw["filter_"] = lambda nd, hidden=hidden: idm(nd) not in hidden
                    if stopset:
                        kw["stop"] = lambda nd, stopset=stopset: idm(nd) in stopset
                    if ml is not None:
                        kw["maxlevel"] = ml
                    got = list(it(nodes[0], **kw))
                    got = [idm.seq(g) for g in got] if name in ("groups", "zigzag") else idm.seq(got)
                    _count(t)
                    if got != exp[name]:
                        _viol(t, "C06", "%s with %s on a %s of %d nodes differs from its definition" % (name, label, shape, n),
                              kind=kind, iterator=name, options=label, shape=shape, observed_len=len(got), expected_len=len(exp[name]))
            _undo(nodes)


# ---------------------------------------------------------------------------------------------------------------- C07
def c07(t):
    import anytree

    for kind in ("node", "user"):
        names = ["n%d" % i for i in range(DEEP + 1)]
        m, nodes = _chain(kind, DEEP, names)
        r = anytree.Resolver("name")
        leaf = nodes[-1]
        for label, start, path, exp in (
                ("relative down", nodes[0], "/".join(names[1:]), leaf),
                ("absolute", leaf, "/" + "/".join(names), leaf),
                ("up", leaf, "/".join([".."] * DEEP), nodes[0]),
                ("down and up", nodes[0], "/".join(names[1:] + [".."] * (DEEP // 2)), nodes[DEEP - DEEP // 2]),
                ("dots", nodes[1], "/".join(x for nm in names[2:] for x in (".", nm, "")), leaf)):
            got = r.get(start, path)
            _count(t)
            if got is not exp:
                _viol(t, "C07", "get along a chain of height %d (%s) returns the wrong node" % (DEEP, label), kind=kind, shape="chain", path_kind=label)
        _undo(nodes)
        names = ["r"] + ["c%d" % i for i in range(WIDE)]
        m, nodes = _wide(kind, WIDE, names)
        for label, start, path, exp in (
                ("last child", nodes[0], "c%d" % (WIDE - 1), nodes[-1]),
                ("first child", nodes[0], "c0", nodes[1]),
                ("sibling", nodes[5], "../c%d" % (WIDE // 2), nodes[1 + WIDE // 2]),
                ("absolute", nodes[7], "/r/c%d" % (WIDE - 2), nodes[-2])):
            got = r.get(start, path)
            _count(t)
            if got is not exp:
                _viol(t, "C07", "get below a node with %d children (%s) returns the wrong node" % (WIDE, label), kind=kind, shape="wide", path_kind=label)
        for relax in (False, True):
            rr = anytree.Resolver("name", relax=relax)
            try:
                got = rr.get(nodes[0], "c%d" % WIDE)
                ok = relax and got is None
            except anytree.ChildResolverError:
                ok = not relax
            _count(t)
            if not ok:
                _viol(t, "C07", "missing child below a node with %d children: wrong outcome (relax=%s)" % (WIDE, relax), kind=kind, shape="wide")
        _undo(nodes)


# ---------------------------------------------------------------------------------------------------------------- C08
def c08(t):
    import anytree

    for kind in ("node", "user"):
        names = ["n%d" % i for i in range(DEEP + 1)]
        m, nodes = _chain(kind, DEEP, names)
        idm = tree.IdMap(nodes)
        r = anytree.Resolver("name")
        n = m.n
        for label, start, pat, exp in (
                ("**", 0, "**", list(range(n))),
                ("**/leaf", 0, "**/n%d" % DEEP, [DEEP]),
                ("**/n*9", 0, "**/n*9", [v for v in range(1, n) if v % 10 == 9]),
                ("**/..", 2, "**/..", list(range(1, n - 1))),
                ("*/*/*", 0, "/".join(["*"] * (DEEP // 3)), [DEEP // 3]),
                ("absolute", n - 1, "/n0/**/n%d" % (DEEP - 1), [DEEP - 1])):
            got = r.glob(nodes[start], pat)
            _count(t)
            if not isinstance(got, list) or idm.seq(got) != exp:
                _viol(t, "C08", "glob %r on a chain of height %d differs from its denotation" % (label, DEEP), kind=kind, shape="chain",
                      pattern=label, observed_len=len(got), expected_len=len(exp))
        _undo(nodes)
        names = ["r"] + ["c%d" % i for i in range(WIDE)]
        m, nodes = _wide(kind, WIDE, names)
        idm = tree.IdMap(nodes)
        n = m.n
        for label, start, pat, exp in (
                ("*", 0, "*", list(range(1, n))),
                ("c*7", 0, "c*7", [v for v in range(1, n) if (v - 1) % 10 == 7]),
                ("c??", 0, "c??", [v for v in range(1, n) if 10 <= v - 1 <= 99]),
                ("**", 0, "**", list(range(n))),
                ("*/..", 0, "*/..", [0] * WIDE),
                ("**/..", 0, "**/..", [0]),
                ("../*", 3, "../*", list(range(1, n)))):
            try:
                got = idm.seq(r.glob(nodes[start], pat))
            except anytree.ResolverError as exc:
                got = type(exc).__name__
            _count(t)
            if got != exp:
                _viol(t, "C08", "glob %r below a node with %d children differs from its denotation" % (label, WIDE), kind=kind, shape="wide",
                      pattern=label, observed_len=len(got), expected_len=len(exp))
        _undo(nodes)


# ---------------------------------------------------------------------------------------------------------------- C09
def c09(t):
    import anytree

    styles = {"cont": anytree.ContStyle(), "ascii": anytree.AsciiStyle(), "round": anytree.ContRoundStyle(), "double": anytree.DoubleStyle()}
    for kind in ("node", "light"):
        names = ["n%d" % i for i in range(DEEP + 1)]
        m, nodes = _chain(kind, DEEP, names)
        for sname, st in styles.items():
            for maxlevel in (None, DEEP // 2):
                rows = list(anytree.RenderTree(nodes[0], style=st, maxlevel=maxlevel))
                lim = m.n if maxlevel is None else maxlevel
                ok = len(rows) == lim
                for d, row in enumerate(rows):
                    if not ok:
                        break
                    if d == 0:
                        ok = row.pre == "" and row.fill == "" and row.node is nodes[0]
                    else:
                        ok = (row.node is nodes[d] and row.pre == st.empty * (d - 1) + st.end and row.fill == st.empty * d)
                _count(t)
                if not ok:
                    _viol(t, "C09", "rendering a chain of height %d (style %s, maxlevel %s) differs from the drawing rules" % (DEEP, sname, maxlevel),
                          kind=kind, shape="chain", style=sname, maxlevel=maxlevel)
        text = anytree.RenderTree(nodes[0]).by_attr("name").split("\n")
        _count(t)
        if text != ["n0"] + ["    " * (d - 1) + "└── n%d" % d for d in range(1, m.n)]:
            _viol(t, "C09", "by_attr on a chain of height %d differs from the drawing rules" % DEEP, kind=kind, shape="chain")
        _undo(nodes)
        names = ["r"] + ["c%d" % i for i in range(WIDE)]
        m, nodes = _wide(kind, WIDE, names)
        for sname, st in styles.items():
            for childiter, order in ((list, list(range(1, m.n))), (lambda ch: reversed(ch), list(range(m.n - 1, 0, -1)))):
                rows = list(anytree.RenderTree(nodes[0], style=st, childiter=childiter))
                ok = len(rows) == m.n and rows[0].pre == "" and rows[0].node is nodes[0]
                for k, row in enumerate(rows[1:]):
                    if not ok:
                        break
                    last = k == WIDE - 1
                    ok = (row.node is nodes[order[k]] and row.pre == (st.end if last else st.cont)
                          and row.fill == (st.empty if last else st.vertical))
                _count(t)
                if not ok:
                    _viol(t, "C09", "rendering a node with %d children (style %s) differs from the drawing rules" % (WIDE, sname),
                          kind=kind, shape="wide", style=sname)
        _undo(nodes)


# ---------------------------------------------------------------------------------------------------------- C12 / C13
def _dot_like(t, pid):
    import anytree
    from anytree.exporter import DotExporter, MermaidExporter, UniqueDotExporter

    from .props import c12, c13

    for shape, mk in (("chain", lambda: _chain("node", DEEP, ["n%d" % i for i in range(DEEP + 1)])),
                      ("wide", lambda: _wide("node", WIDE, ["r"] + ["c%d" % i for i in range(WIDE)]))):
        m, nodes = mk()
        names = [nd.name for nd in nodes]
        exp_edges = sorted((m.par[v], v) for v in range(1, m.n))
        if pid == "C12":
            for label, cls in (("dot", DotExporter), ("unique", UniqueDotExporter)):
                lines = list(cls(nodes[0]))
                p = c12.parse(lines, "    ", 0)
                _count(t)
                ok = not isinstance(p, str) and len(p["nodes"]) == m.n and len({i for i, _ in p["nodes"]}) == m.n
                if ok:
                    ids = [i for i, _ in p["nodes"]]
                    pos = {i: k for k, i in enumerate(ids)}
                    # declaration order is pre-order == index order for both shapes
                    ok = sorted((pos.get(a, -1), pos.get(b, -1)) for a, _, b, _ in p["edges"]) == exp_edges
                    if ok and label == "dot":
                        ok = ids == ['"%s"' % nm for nm in names] or ids == names
                if not ok:
                    _viol(t, "C12", "%s export of a %s (%d nodes) is not the declared graph" % (label, shape, m.n), shape=shape, exporter=label,
                          parse_error=p if isinstance(p, str) else None)
        else:
            lines = list(MermaidExporter(nodes[0]))
            _count(t)
            tl = core.Tally()
            c13.judge_default(tl, m, names, lines, 0, (), (), None, {"shape": shape, "kind": "node"})
            if tl.violations:
                _viol(t, "C13", "Mermaid export of a %s (%d nodes): %s" % (shape, m.n, tl.violations[0]["why"]), shape=shape)
        _undo(nodes)


def c12(t):
    _dot_like(t, "C12")


def c13(t):
    _dot_like(t, "C13")


# ---------------------------------------------------------------------------------------------------------------- C14
def c14(t):
    import anytree

    for kind in ("node", "user"):
        for shape, (m, nodes) in (("chain", _chain(kind, DEEP, ["n%d" % (i % 7) for i in range(DEEP + 1)])),
                                  ("wide", _wide(kind, WIDE, ["n%d" % (i % 7) for i in range(WIDE + 1)]))):
            idm = tree.IdMap(nodes)
            n = m.n
            sel = [v for v in range(n) if v % 7 == 3]
            checks = [
                ("findall", lambda: idm.seq(anytree.findall(nodes[0], lambda nd: idm(nd) % 7 == 3)), sel, tuple),
                ("findall_by_attr", lambda: idm.seq(anytree.findall_by_attr(nodes[0], "n3")), sel, tuple),
                ("findall all", lambda: idm.seq(anytree.findall(nodes[0])), list(range(n)), tuple),
                ("findall exact counts", lambda: idm.seq(anytree.findall(nodes[0], lambda nd: idm(nd) % 7 == 3, mincount=len(sel), maxcount=len(sel))), sel, tuple),
                ("find last", lambda: idm(anytree.find(nodes[0], lambda nd: idm(nd) == n - 1)), n - 1, None),
                ("find none", lambda: anytree.find(nodes[0], lambda nd: False), None, None),
                ("find_by_attr", lambda: idm(anytree.find_by_attr(nodes[n - 1 if shape == "wide" else n - 3], "n%d" % ((n - 1) % 7))), n - 1, None),
            ]
            if shape == "chain":
                lv = n // 2
                checks.append(("findall maxlevel", lambda: idm.seq(anytree.findall(nodes[0], lambda nd: idm(nd) % 7 == 3, maxlevel=lv)),
                               [v for v in sel if v < lv], tuple))
                checks.append(("findall stop", lambda: idm.seq(anytree.findall(nodes[0], stop=lambda nd: idm(nd) == lv)), list(range(lv)), tuple))
            for label, fn, exp, _typ in checks:
                try:
                    got = fn()
                except anytree.CountError as exc:
                    got = "CountError"
                _count(t)
                if got != exp:
                    _viol(t, "C14", "%s on a %s of %d nodes differs from the pre-order selection" % (label, shape, n), kind=kind, shape=shape, call=label)
            for label, fn in (("maxcount", lambda: anytree.findall(nodes[0], lambda nd: idm(nd) % 7 == 3, maxcount=len(sel) - 1)),
                              ("mincount", lambda: anytree.findall(nodes[0], lambda nd: idm(nd) % 7 == 3, mincount=len(sel) + 1)),
                              ("find two", lambda: anytree.find(nodes[0], lambda nd: idm(nd) in (n - 1, n - 2)))):
                try:
                    fn()
                    got = "returned"
                except anytree.CountError:
                    got = "CountError"
                _count(t)
                if got != "CountError":
                    _viol(t, "C14", "%s on a %s of %d nodes: no CountError" % (label, shape, n), kind=kind, shape=shape, call=label)
            _undo(nodes)


FUNCS = {"C06": c06, "C07": c07, "C08": c08, "C09": c09, "C12": c12, "C13": c13, "C14": c14}


def job(pid):
    t = core.Tally()
    sys.setrecursionlimit(1000)
    core.guard(t, pid, {"engine": "E2", "module": MOD, "pid": pid, "part": "capacity"}, FUNCS[pid], t, _limit=300)
    return t


def replay(c):
    return [v["why"] for v in job(c["pid"]).violations]
