"""E1 driver: shard jobs, judges for the structural properties, and the per-check orchestration."""
from . import core, forest, models
from .forest import PRE

# ---------------------------------------------------------------------------------------------
# judges: (tally, exec, witness, extra) -> None


def _nodemixin_of(ex):
    ck = forest.kind_classes(ex.kind, ex.n)

    def f(label):
        i = forest.LABELS.index(label)
        if i < len(ck):
            return forest.is_nodemixin_kind(ck[i])
        return True

    return f


def _labels_pre(ex):
    return list(forest.LABELS[: ex.n])


def _pad(state, ex):
    """Pre-state padded to the post-state's label set (constructor ops add a label)."""
    extra = len(ex.labels) - len(state)
    return tuple(state) + tuple((None, ()) for _ in range(extra))


def _first_fault(ex):
    if not ex.faults:
        return None
    return ex.log[ex.faults[0]]


def judge_c01(t, ex, witness, extra):
    why = forest.forest_invariant(ex.u)
    if why is None:
        why = forest.state_invariant(ex.post, ex.labels)
    if why is None and "AssertionError" in ex.mro:
        why = "internal assertion fired: %r" % (ex.exc,)
    if why is None and ex.outcome == "CaseTimeout":
        why = "the call did not terminate (cyclic links?)"
    if why is not None:
        t.violation("C01: " + why, forest.case_of(ex, witness, why))
    if ex.outcome != "ok":
        t.c["raised:" + ex.outcome] += 1
    if ex.faults:
        t.c["faulted_runs"] += 1
        if len(ex.faults) > 1:
            t.c["runs_with_2+_faults"] += 1
    if ex.post != _pad(ex.pre, ex):
        t.c["changed"] += 1
        t.c["nontrivial"] += 1
    elif ex.outcome != "ok":
        t.c["nontrivial"] += 1


def _cmp_spec(t, ex, witness, prop):
    labels = _labels_pre(ex)
    want, st, log = models.spec_apply(ex.pre, labels, ex.op, _nodemixin_of(ex))
    t.c["spec:" + want] += 1
    if want == models.UNDEFINED:
        return want, st, log
    got_state = ex.post
    st = _pad(st, ex) if len(st) < len(got_state) else st
    why = None
    if want in ("ok", "noop"):
        if ex.outcome != "ok":
            why = "call must succeed but raised %s: %r" % (ex.outcome, ex.exc)
        elif got_state != st:
            why = "wrong effect"
    elif want == "raises":
        if ex.outcome == "ok":
            why = "call must be refused but succeeded"
    else:
        if ex.outcome != want:
            why = "expected refusal with %s, observed %s" % (want, ex.outcome)
    if why is None and want not in ("ok", "noop") and prop == "C02" and ex.op[0] == "new" and len(got_state) == len(st) and got_state != st:
        # (the state after a refused assignment is C03's business; C02 only judges the refusal class.)  A constructor's
        # parent= / children= arguments behave like the two assignments in this order: after a refusal the forest is what
        # the assignments leave behind - the parent step done if the children step is the one refused, nothing else moved
        why = "refused constructor call leaves another forest than parent assignment followed by children assignment"
    if why is not None:
        c = forest.case_of(ex, witness, why)
        c["expected"] = {"outcome": want, "state": forest.fmt_state(st, ex.labels)}
        t.violation("%s: %s" % (prop, why), c)
    return want, st, log


def judge_c02(t, ex, witness, extra):
    if ex.faults:
        return
    want, st, log = _cmp_spec(t, ex, witness, "C02")
    if want == "ok" and ex.post != _pad(ex.pre, ex):
        t.c["nontrivial"] += 1
        moved = sum(1 for a, b in zip(ex.post, _pad(ex.pre, ex)) if a[0] != b[0])
        if moved >= 2:
            t.c["changed>=2_parents"] += 1
    elif want not in ("ok", "noop", models.UNDEFINED):
        t.c["nontrivial"] += 1


def classify_kf_c03(ex):
    """Selector part of the known-finding matcher: which known finding could explain damage here?"""
    ff = _first_fault(ex)
    if ff is None:
        return None
    hook, node, arg = ff[0], ff[1], ff[2]
    op = ex.op
    if op[0] == "setp":
        if hook == "_pre_attach" and node == op[1] and ex.pre[forest.LABELS.index(op[1])][0] is not None:
            return "KF-C03-move-preattach"
        return None
    if op[0] in ("delc", "setc"):
        n = op[1]
        idx = ex.faults[0]
        in_attach_phase = any(r[0] == "_post_detach_children" and r[1] == n for r in ex.log[:idx])
        if not in_attach_phase:
            old = ex.pre[forest.LABELS.index(n)][1]
            if hook == "_pre_detach" and arg == n and node in old and node != old[0]:
                return "KF-C03-detach-phase-later-child"
            return None
        if op[0] == "setc" and hook in PRE:
            # includes the pre hooks fired by the roll-back (it re-enters the setter) of a refused or vetoed call
            return "KF-C03-attach-phase-veto"
    return None


def judge_c03(t, ex, witness, extra):
    pre = _pad(ex.pre, ex)
    if not ex.faults:
        if ex.outcome == "ok":
            return
        labels = _labels_pre(ex)
        want, st, log = models.spec_apply(ex.pre, labels, ex.op, _nodemixin_of(ex))
        if want == models.UNDEFINED:
            t.c["undefined_refusals_skipped"] += 1
            return
        if ex.op[0] == "new":
            return  # a failing constructor is judged by C02 (sequential assignment semantics)
        t.c["refusals"] += 1
        t.c["refusal:" + ex.outcome] += 1
        t.c["nontrivial"] += 1
        if ex.post != pre:
            why = "refused call (%s) changed the forest" % ex.outcome
            t.violation("C03: " + why, forest.case_of(ex, witness, why))
        return
    ff = _first_fault(ex)
    if ff[0] not in PRE or ex.op[0] == "new":
        return  # post-hook faults and constructor calls are outside C03's statement (C01 / C02 / C16 judge them)
    if models.spec_apply(ex.pre, _labels_pre(ex), ex.op, _nodemixin_of(ex))[0] == models.UNDEFINED:
        t.c["undefined_vetoed_skipped"] += 1
        return
    t.c["pre_hook_vetoes"] += 1
    t.c["veto:" + ff[0]] += 1
    pos = ex.faults[0]
    t.c["veto_pos:" + ("first" if pos == 0 else "later")] += 1
    t.c["nontrivial"] += 1
    if ex.outcome == "ok":
        why = "exception of pre hook %s was swallowed" % ff[0]
        t.violation("C03: " + why, forest.case_of(ex, witness, why))
        return
    if ex.post == pre:
        t.c["veto_untouched"] += 1
        return
    # the property is violated here; is it one of the known findings, with exactly the known damage?
    kf = classify_kf_c03(ex)
    known = extra.get("known", {}) if extra else {}
    if kf is not None and kf in known:
        m = models.AsIs(ex.pre, _labels_pre(ex), ex.raise_at, ex.persist)
        try:
            m.apply(ex.op)
            predicted = m.state()
        except Exception:  # noqa - the transcription does not cover this call: no known finding can match
            predicted = None
        if predicted == ex.post:
            t.kf(kf, forest.case_of(ex, witness))
            return
        why = "veto by %s damaged the forest differently from known finding %s" % (ff[0], kf)
        c = forest.case_of(ex, witness, why)
        c["asis_state"] = forest.fmt_state(predicted, _labels_pre(ex)) if predicted else None
        t.violation("C03: " + why, c)
        return
    why = "call vetoed by %s of %s changed the forest" % (ff[0], ff[1])
    t.violation("C03: " + why, forest.case_of(ex, witness, why))


def _snap_checks(ex, reentrant=False):
    """Oracle B: monitor law over the snapshots taken at hook entry.  With hooks that change the forest themselves
    (reentrant) only what the four per-node hooks observe is judged: the nesting makes the other laws meaningless."""
    labels = ex.labels
    ix = {l: i for i, l in enumerate(labels)}
    pre = _pad(ex.pre, ex)

    def trim(s):
        # snapshots may have been taken before a constructor op registered its label
        s = tuple(s)
        return s + tuple((None, ()) for _ in range(len(labels) - len(s)))

    seq = [("<call>", None, None, pre)] + [(r[0], r[1], r[2], trim(r[3])) for r in ex.log] + [("<return>", None, None, ex.post)]
    faulted = set(ex.faults)
    for i in range(len(seq) - 1) if not reentrant else ():
        a, b = seq[i], seq[i + 1]
        sa, sb = a[3], b[3]
        if sa == sb:
            continue
        hook, n, p = a[0], a[1], a[2]
        ok = False
        if hook == "_pre_detach" and (i - 1) not in faulted and b[0] == "_post_detach" and b[1] == n and b[2] == p:
            exp = models._move(sa, labels, ix, n, None)
            ok = sa[ix[n]][0] == p and exp == sb
        elif hook == "_pre_attach" and (i - 1) not in faulted and b[0] == "_post_attach" and b[1] == n and b[2] == p:
            exp = models._move(sa, labels, ix, n, p)
            ok = sa[ix[n]][0] is None and exp == sb
        if not ok:
            return "forest changed between %s(%s) and %s(%s) other than by that node's single link step" % (
                a[0], a[1], b[0], b[1])
    # what each hook observes
    for (hook, n, p, s) in seq[1:-1]:
        if n not in ix or (p is not None and not isinstance(p, tuple) and p not in ix):
            continue
        if hook == "_pre_detach":
            if s[ix[n]][0] != p or s[ix[p]][1].count(n) != 1:
                return "_pre_detach(%s) does not see %s as a child of %s" % (n, n, p)
        elif hook in ("_post_detach", "_pre_attach"):
            if s[ix[n]][0] is not None or any(n in c for _, c in s):
                return "%s(%s) does not see %s as a root outside every children list" % (hook, n, n)
        elif hook == "_post_attach":
            if s[ix[n]][0] != p or not s[ix[p]][1] or s[ix[p]][1][-1] != n:
                return "_post_attach(%s) does not see %s as the last child of %s" % (n, n, p)
        elif reentrant:
            continue
        elif hook == "_pre_detach_children":
            if tuple(s[ix[n]][1]) != tuple(p):
                return "_pre_detach_children(%s) is not given the children %s still has" % (n, n)
        elif hook == "_post_detach_children":
            # the bracket closes after ALL former children were detached (it wraps the per-child calls)
            if s[ix[n]][1]:
                return "_post_detach_children(%s) fired while %s still has children %r" % (n, n, s[ix[n]][1])
        elif hook == "_pre_attach_children":
            if s[ix[n]][1]:
                return "_pre_attach_children(%s) fired while former children are still attached" % n
        elif hook == "_post_attach_children":
            if tuple(s[ix[n]][1]) != tuple(p):
                return "_post_attach_children(%s) fired although the children of %s are not the assigned ones" % (n, n)
    return None


def judge_c16(t, ex, witness, extra):
    labels = _labels_pre(ex)
    log3 = [tuple(r[:3]) for r in ex.log]
    reentrant = bool(ex.raise_at and ex.raise_at[0] == "reenter")
    if reentrant:
        # a hook that detaches another node itself: the exact sequence is not specified, but what every hook call - nested or
        # not - observes is (a detach hook only for a node that still has that parent, exactly one link step per bracket)
        t.c["reentrant_monitor_runs"] += 1
    elif not ex.faults:
        want, st, log = models.spec_apply(ex.pre, labels, ex.op, _nodemixin_of(ex))
        if log is not None and want != models.UNDEFINED:
            t.c["exact_logs_compared"] += 1
            if log:
                t.c["nontrivial"] += 1
            else:
                t.c["silent_calls"] += 1
            if [tuple(x) for x in log] != log3:
                why = "hook sequence differs from the specified one"
                c = forest.case_of(ex, witness, why)
                c["expected"] = {"log": [list(x) for x in log]}
                t.violation("C16: " + why, c)
                return
    else:
        ff = _first_fault(ex)
        if ex.op[0] == "setp" and len(ex.faults) == 1 and ff[0] in ("_post_detach", "_post_attach"):
            # Oracle C: the exception propagates, the step that preceded it is not undone
            t.c["post_hook_faults_on_parent_assignment"] += 1
            t.c["nontrivial"] += 1
            ix = {l: i for i, l in enumerate(labels)}
            n = ex.op[1]
            exp = models._move(ex.pre, labels, ix, n, None if ff[0] == "_post_detach" else ex.op[2])
            if ex.outcome != "InjectedFault" or ex.post != exp:
                why = "exception from %s did not propagate with the preceding step kept" % ff[0]
                c = forest.case_of(ex, witness, why)
                c["expected"] = {"outcome": "InjectedFault", "state": forest.fmt_state(exp, labels)}
                t.violation("C16: " + why, c)
                return
    if ex.log and len(ex.log[0]) > 3:
        why = _snap_checks(ex, reentrant)
        t.c["monitor_runs"] += 1
        if why is not None:
            t.violation("C16: " + why, forest.case_of(ex, witness, why))


JUDGES = {"c01": judge_c01, "c02": judge_c02, "c03": judge_c03, "c16": judge_c16}


# ---------------------------------------------------------------------------------------------
# shard job


def explore(kind, n, cfg, hidden, states, d, persistent, judge, snap=False, extra=None, only_pre_first=False, flavour="plain",
            two_step=None, reenter=False, stack=False):
    t = core.Tally()
    forest.FAULT_FLAVOUR[0] = flavour
    if two_step:
        return explore_two_step(t, kind, n, hidden, states, judge, extra, two_step)
    ops = forest.ops_for(n, cfg)
    if isinstance(judge, str) and judge not in JUDGES:
        if judge in ("c17", "c18"):
            from . import lockstep

            JUDGES[judge] = lockstep.make_judge(judge.upper())
        else:
            import importlib

            JUDGES[judge] = importlib.import_module("mc.props.%s" % judge).JUDGE
    jf = JUDGES[judge] if isinstance(judge, str) else judge
    want = (lambda h: h in PRE) if only_pre_first else None
    for key, state, witness in states:
        forest.check_witness(kind, n, witness, key, hidden)
        t.c["states"] += 1
        for op in ops:
            t.c["transitions"] += 1
            menu = None
            if reenter == "moves":
                menu = [("setp", x, y) for x in forest.LABELS[:n] for y in (None,) + tuple(forest.LABELS[:n]) if x != y]
            elif reenter:
                menu = [("setp", x, None) for x in forest.LABELS[:n]]
            for ex in forest.runs(kind, n, witness, state, op, d, persistent, snap, want, menu, range(1, 40) if stack else None):
                t.c["executions"] += 1
                if ex.raise_at and ex.raise_at[0] == "stack":
                    t.c["exec_stack_budget"] += 1
                    if ex.outcome == "RecursionError":
                        t.c["stack_exhausted_runs"] += 1
                elif ex.raise_at and ex.raise_at[0] == "reenter":
                    t.c["exec_reentrant_hook"] += 1
                else:
                    t.c["exec_d%d%s" % (len(ex.raise_at), "p" if ex.persist else "")] += 1
                if len(ex.log) > t.c["max_hooks_per_run"]:
                    t.c["max_hooks_per_run"] = len(ex.log)
                core.guard(t, judge.upper() if isinstance(judge, str) else "E1", forest.case_of(ex, witness), jf, t, ex, witness, extra, _limit=10)
                t.obs((kind, key, op, ex.raise_at, ex.persist, ex.outcome, ex.post, [r[:3] for r in ex.log]))
                if t.c["executions"] % 9973 == 1:
                    t.sample(forest.case_of(ex, witness), cap=2)
    return t


def explore_two_step(t, kind, n, hidden, states, judge, extra, ts):
    """Histories in which an EARLIER call was aborted by a hook: from every state, every structural call under every
    non-empty fault plan (step 1), then every structural call under the step-2 plans, judged against the forest
    left by step 1.  State that survives a failed call inside the library (flags, guards, caches) shows up here."""
    if judge not in JUDGES:
        import importlib

        JUDGES[judge] = importlib.import_module("mc.props.%s" % judge).JUDGE
    jf = JUDGES[judge]
    ops = forest.ops_for(n, {"read": False, "nonnode": False, "extras": False, "L": ts.get("L", n)})
    want2 = (lambda h: h in PRE) if ts.get("only_pre_first2") else None
    for key, state, witness in states:
        forest.check_witness(kind, n, witness, key, hidden)
        t.c["states"] += 1
        for op1 in ops:
            for ex1 in forest.runs(kind, n, witness, state, op1, ts.get("d1", 1), tuple(ts.get("persistent1", ()))):
                if not ex1.faults or len(ex1.post) != len(state):
                    continue
                if forest.state_invariant(ex1.post, ex1.labels) is not None:
                    continue  # reported by the single-step exploration
                t.c["faulted_first_steps"] += 1
                step = ("fault", op1, tuple(ex1.raise_at), tuple(ex1.persist) if ex1.persist else None)
                w2 = tuple(witness) + (step,)
                pre2 = ex1.post
                for op2 in ops:
                    t.c["transitions"] += 1
                    for ex in forest.runs(kind, n, w2, pre2, op2, ts.get("d2", 0), tuple(ts.get("persistent2", ())), False, want2):
                        t.c["executions"] += 1
                        t.c["two_step_executions"] += 1
                        core.guard(t, judge.upper(), forest.case_of(ex, w2), jf, t, ex, w2, extra, _limit=10)
                        t.obs((kind, key, step, op2, ex.raise_at, ex.persist, ex.outcome, ex.post))
        if t.c["executions"] and len(t.samples) < 1:
            t.sample({"kind": kind, "witness": [list(w) for w in witness], "step1": "every call under every non-empty fault plan",
                      "step2": "every call, judged against the forest left by step 1"})
    return t


def merge_max(t, other, keys=("max_hooks_per_run",)):
    vals = {k: max(t.c.get(k, 0), other.c.get(k, 0)) for k in keys}
    t.merge(other)
    for k, v in vals.items():
        t.c[k] = v


def run_configs(configs, log=print):
    """configs: list of dicts(kind, n, cfg, hidden, d, persistent, assertions, judge, snap, reclimit, extra,
    only_pre_first, name).  Returns (Tally, per-config summaries)."""
    total = core.Tally()
    summaries = []
    by_pool = {}
    for c in configs:
        by_pool.setdefault((c.get("assertions", 0), c.get("reclimit", 0)), []).append(c)
    for (assertions, reclimit), cs in sorted(by_pool.items()):
        pool = core.Pool(assertions, reclimit=reclimit)
        try:
            cache = {}
            for c in cs:
                tm = core.Timer()
                dk = (c["kind"], c["n"], repr(sorted(c["cfg"].items())), c["hidden"])
                if dk not in cache:
                    cache[dk] = forest.discover(pool, c["kind"], c["n"], c["cfg"], c["hidden"])
                states = cache[dk]
                shards = core.shard(states, core.NPROC * 4)
                jobs = [
                    ("mc.e1run", "explore", dict(kind=c["kind"], n=c["n"], cfg=c["cfg"], hidden=c["hidden"], states=s,
                                                 d=c["d"], persistent=tuple(c.get("persistent", ())), judge=c["judge"],
                                                 snap=c.get("snap", False), extra=c.get("extra"),
                                                 only_pre_first=c.get("only_pre_first", False), flavour=c.get("flavour", "plain"),
                                                 two_step=c.get("two_step"), reenter=c.get("reenter", False),
                                                 stack=c.get("stack", False)))
                    for s in shards
                ]
                t = core.Tally()
                for res in pool.run(jobs):
                    merge_max(t, res)
                if t.c["states"] != len(states):
                    t.errors.append("shards covered %d of %d states" % (t.c["states"], len(states)))
                name = c.get("name") or "%s N=%d d<=%d%s%s%s A=%d" % (
                    c["kind"], c["n"], c["d"], "+persist" if c.get("persistent") else "",
                    " hidden-bits" if c["hidden"] else "", " faults:" + c["flavour"] if c.get("flavour") else "", assertions)
                summ = {"config": name, "states": len(states), "transitions": t.c["transitions"],
                        "executions": t.c["executions"], "violations": t.c["violations"], "wall_s": round(tm.s(), 2)}
                summaries.append(summ)
                log("  %-58s states=%-6d transitions=%-8d executions=%-9d viol=%d %.1fs" % (
                    name, len(states), t.c["transitions"], t.c["executions"], t.c["violations"], tm.s()))
                merge_max(total, t)
        finally:
            pool.close()
    return total, summaries
