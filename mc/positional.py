"""Positional calls: every public callable behind a property is also called with ALL its parameters given positionally,
in the order of the released signature (pinned commit), and must give the result of the keyword call.

The keyword form is what the exhaustive checks of each property use; a re-ordering of parameters (e.g. to match a
docstring, or to align two sibling classes) leaves every keyword call intact and silently re-binds the arguments of
positional callers.  The arguments are chosen pairwise distinguishable (a swap of any two changes the result or raises).
This is a fixed list of calls on one fixed tree, not an enumeration; it is listed under `positional_calls` in the evidence.

Tree (index: name):  0:r -> (1:a -> (3:c, 4:d), 2:b)
"""
import collections
import io
import json

from . import core, tree

MOD = "mc.positional"
SHAPE = (((), ()), ())
NAMES = ["r", "a", "b", "c", "d"]


def _tree(kind="node"):
    m = tree.Model.from_shape(SHAPE)
    names = ["r", "a", "c", "d", "b"]  # pre-order indices: 0 r, 1 a, 2 c, 3 d, 4 b
    nodes = tree.build(m, tree.default_factory(kind), "topdown", names=names)
    return m, nodes, tree.IdMap(nodes), names


def _viol(t, pid, what, **kw):
    t.violation("%s: positional call of %s differs from the keyword call (released parameter order)" % (pid, what),
                dict({"engine": "E2", "module": MOD, "pid": pid, "part": "positional", "call": what}, **kw))


def _cmp(t, pid, what, positional, keyword, norm=lambda x: x):
    t.c["evaluations"] += 1
    t.c["positional_calls"] += 1

    def run(f):
        try:
            return ("ok", norm(f()))
        except Exception as exc:  # noqa
            return ("raised", type(exc).__name__)
    a, b = run(positional), run(keyword)
    if a != b or b[0] != "ok":
        _viol(t, pid, what, positional=repr(a)[:300], keyword=repr(b)[:300])


def iterators(t, pid):
    import anytree

    m, nodes, idm, _ = _tree("user")
    filt = lambda nd: idm(nd) != 1      # noqa  hide a
    stop = lambda nd: idm(nd) == 3      # noqa  stop at d
    for cls in (anytree.PreOrderIter, anytree.PostOrderIter, anytree.LevelOrderIter, anytree.LevelOrderGroupIter, anytree.ZigZagGroupIter):
        norm = (lambda x: [idm.seq(g) for g in x]) if "Group" in cls.__name__ else (lambda x: idm.seq(x))
        _cmp(t, pid, cls.__name__, lambda: list(cls(nodes[0], filt, stop, 3)),
             lambda: list(cls(node=nodes[0], filter_=filt, stop=stop, maxlevel=3)), norm)
        _cmp(t, pid, cls.__name__ + " (two)", lambda: list(cls(nodes[0], filt)), lambda: list(cls(nodes[0], filter_=filt)), norm)
        _cmp(t, pid, cls.__name__ + " (three)", lambda: list(cls(nodes[0], None, stop)), lambda: list(cls(nodes[0], stop=stop)), norm)


def c05(t):
    iterators(t, "C05")


def c06(t):
    iterators(t, "C06")


def c09(t):
    import anytree

    m, nodes, idm, _ = _tree("node")
    rev = lambda cs: list(cs)[::-1]  # noqa
    norm = lambda rows: [(r.pre, r.fill, idm(r.node)) for r in rows]  # noqa
    _cmp(t, "C09", "RenderTree", lambda: list(anytree.RenderTree(nodes[0], anytree.AsciiStyle(), rev, 2)),
         lambda: list(anytree.RenderTree(node=nodes[0], style=anytree.AsciiStyle(), childiter=rev, maxlevel=2)), norm)
    _cmp(t, "C09", "RenderTree.by_attr", lambda: anytree.RenderTree(nodes[0]).by_attr("name"), lambda: anytree.RenderTree(nodes[0]).by_attr(attrname="name"))
    _cmp(t, "C09", "AbstractStyle", lambda: anytree.RenderTree(nodes[0], anytree.AbstractStyle("|", "+", "`")).by_attr(),
         lambda: anytree.RenderTree(nodes[0], anytree.AbstractStyle(vertical="|", cont="+", end="`")).by_attr())


def _resolver(t, pid):
    import anytree

    m, nodes, idm, _ = _tree("node")
    for nd in nodes:
        nd.tag = nd.name.upper()

    def both(r):
        out = []
        for call, path in ((r.get, "a/C"), (r.get, "nosuch"), (r.glob, "A/*"), (r.glob, "a/*"), (r.glob, "nosuch/x")):
            try:
                res = call(nodes[0], path)
                out.append(idm.seq(res) if isinstance(res, list) else idm(res))
            except anytree.ResolverError as exc:
                out.append(type(exc).__name__)
        return out
    for args in (("tag", True, False), ("tag", False, True), ("name", True, True)):
        _cmp(t, pid, "Resolver%r" % (args,), lambda: both(anytree.Resolver(*args)),
             lambda: both(anytree.Resolver(pathattr=args[0], ignorecase=args[1], relax=args[2])))
    r = anytree.Resolver()
    _cmp(t, pid, "Resolver.get", lambda: idm(r.get(nodes[0], "a/c")), lambda: idm(r.get(node=nodes[0], path="a/c")))
    _cmp(t, pid, "Resolver.glob", lambda: idm.seq(r.glob(nodes[0], "a/*")), lambda: idm.seq(r.glob(node=nodes[0], path="a/*")))


def c07(t):
    _resolver(t, "C07")


def c08(t):
    _resolver(t, "C08")


def c10(t):
    import anytree
    from anytree.exporter import DictExporter
    from anytree.importer import DictImporter

    m, nodes, idm, _ = _tree("node")
    for i, nd in enumerate(nodes):
        nd.z, nd.b = i, -i
    srt = lambda items: sorted(items)       # noqa
    rev = lambda cs: list(cs)[::-1]         # noqa
    norm = lambda d: (json.dumps(d), type(d).__name__, type(d["children"][0]).__name__)  # noqa
    _cmp(t, "C10", "DictExporter", lambda: DictExporter(collections.OrderedDict, srt, rev, 2).export(nodes[0]),
         lambda: DictExporter(dictcls=collections.OrderedDict, attriter=srt, childiter=rev, maxlevel=2).export(nodes[0]), norm)
    d = DictExporter().export(nodes[0])
    _cmp(t, "C10", "DictImporter", lambda: DictImporter(anytree.Node).import_(d), lambda: DictImporter(nodecls=anytree.Node).import_(d),
         lambda r: (type(r).__name__, anytree.RenderTree(r).by_attr()))


def c11(t):
    import anytree
    from anytree.exporter import DictExporter, JsonExporter
    from anytree.importer import DictImporter, JsonImporter

    m, nodes, idm, _ = _tree("node")
    dexp = lambda: DictExporter(childiter=lambda cs: list(cs)[::-1])  # noqa
    _cmp(t, "C11", "JsonExporter", lambda: JsonExporter(dexp(), 2, indent=1, sort_keys=True).export(nodes[0]),
         lambda: JsonExporter(dictexporter=dexp(), maxlevel=2, indent=1, sort_keys=True).export(nodes[0]))

    def w(exp):
        buf = io.StringIO()
        exp.write(nodes[0], buf)
        return buf.getvalue()
    _cmp(t, "C11", "JsonExporter.write", lambda: w(JsonExporter(dexp(), 2)), lambda: w(JsonExporter(dictexporter=dexp(), maxlevel=2)))
    text = JsonExporter().export(nodes[0])
    _cmp(t, "C11", "JsonImporter", lambda: JsonImporter(DictImporter(anytree.Node)).import_(text),
         lambda: JsonImporter(dictimporter=DictImporter(nodecls=anytree.Node)).import_(text), lambda r: (type(r).__name__, anytree.RenderTree(r).by_attr()))


def c12(t):
    import anytree
    from anytree.dotexport import RenderTreeGraph
    from anytree.exporter import DotExporter, UniqueDotExporter

    m, nodes, idm, _ = _tree("node")
    namef = lambda nd: "N_%s" % nd.name                                  # noqa
    attrf = lambda nd: "shape=box" if nd.children else None              # noqa
    eattr = lambda a, b: "label=%s%s" % (a.name, b.name)                 # noqa
    etype = lambda a, b: "--"                                            # noqa
    filt = lambda nd: nd.name != "b"                                     # noqa
    stop = lambda nd: nd.name == "d"                                     # noqa
    opts = ["rankdir=LR;"]
    kw = dict(graph="graph", name="g", options=opts, indent=2, nodenamefunc=namef, nodeattrfunc=attrf, edgeattrfunc=eattr, edgetypefunc=etype, filter_=filt)
    # released order: DotExporter(..., filter_, maxlevel, stop); UniqueDotExporter(..., filter_, stop, maxlevel)
    _cmp(t, "C12", "DotExporter", lambda: list(DotExporter(nodes[0], "graph", "g", opts, 2, namef, attrf, eattr, etype, filt, 3, stop)),
         lambda: list(DotExporter(nodes[0], maxlevel=3, stop=stop, **kw)))
    _cmp(t, "C12", "RenderTreeGraph", lambda: list(RenderTreeGraph(nodes[0], "graph", "g", opts, 2, namef, attrf, eattr, etype, filt, 3, stop)),
         lambda: list(DotExporter(nodes[0], maxlevel=3, stop=stop, **kw)))
    _cmp(t, "C12", "UniqueDotExporter", lambda: list(UniqueDotExporter(nodes[0], "graph", "g", opts, 2, namef, attrf, eattr, etype, filt, stop, 3)),
         lambda: list(UniqueDotExporter(nodes[0], maxlevel=3, stop=stop, **kw)))
    kw2 = dict(kw, nodenamefunc=None)
    _cmp(t, "C12", "UniqueDotExporter (default names)",
         lambda: len(list(UniqueDotExporter(nodes[0], "graph", "g", opts, 2, None, attrf, eattr, etype, filt, stop, 3))),
         lambda: len(list(UniqueDotExporter(nodes[0], maxlevel=3, stop=stop, **kw2))))


def c13(t):
    from anytree.exporter import MermaidExporter

    m, nodes, idm, _ = _tree("node")
    namef = lambda nd: "N_%s" % nd.name                                  # noqa
    nodef = lambda nd: "(%s)" % nd.name                                  # noqa
    edgef = lambda a, b: "-.->"                                          # noqa
    filt = lambda nd: nd.name != "b"                                     # noqa
    stop = lambda nd: nd.name == "d"                                     # noqa
    opts = ["%% c"]
    _cmp(t, "C13", "MermaidExporter", lambda: list(MermaidExporter(nodes[0], "flowchart", "LR", opts, 2, namef, nodef, edgef, filt, stop, 3)),
         lambda: list(MermaidExporter(nodes[0], graph="flowchart", name="LR", options=opts, indent=2, nodenamefunc=namef, nodefunc=nodef,
                                      edgefunc=edgef, filter_=filt, stop=stop, maxlevel=3)))


def c14(t):
    import anytree
    from anytree import cachedsearch

    m, nodes, idm, _ = _tree("node")
    for i, nd in enumerate(nodes):
        nd.tag = "t%d" % (i % 2)
    filt = lambda nd: idm(nd) % 2 == 0   # noqa  r, c, b
    stop = lambda nd: idm(nd) == 3       # noqa  d
    for mod, label in ((anytree, "search"), (cachedsearch, "cachedsearch")):
        _cmp(t, "C14", label + ".findall", lambda: idm.seq(mod.findall(nodes[0], filt, stop, 3, 1, 5)),
             lambda: idm.seq(mod.findall(nodes[0], filter_=filt, stop=stop, maxlevel=3, mincount=1, maxcount=5)))
        _cmp(t, "C14", label + ".findall (counts bite)", lambda: _count_outcome(anytree, lambda: mod.findall(nodes[0], filt, stop, 3, 1, 2)),
             lambda: _count_outcome(anytree, lambda: mod.findall(nodes[0], filter_=filt, stop=stop, maxlevel=3, mincount=1, maxcount=2)))
        _cmp(t, "C14", label + ".find", lambda: idm(mod.find(nodes[1], lambda nd: idm(nd) == 2, stop, 2)),
             lambda: idm(mod.find(nodes[1], filter_=lambda nd: idm(nd) == 2, stop=stop, maxlevel=2)))
        _cmp(t, "C14", label + ".findall_by_attr", lambda: idm.seq(mod.findall_by_attr(nodes[0], "t0", "tag", 2, 1, 3)),
             lambda: idm.seq(mod.findall_by_attr(nodes[0], value="t0", name="tag", maxlevel=2, mincount=1, maxcount=3)))
        _cmp(t, "C14", label + ".find_by_attr", lambda: idm(mod.find_by_attr(nodes[1], "t0", "tag", 2)),
             lambda: idm(mod.find_by_attr(nodes[1], value="t0", name="tag", maxlevel=2)))


def _count_outcome(anytree, f):
    try:
        return len(f())
    except anytree.CountError:
        return "CountError"


def c15(t):
    import anytree

    m, nodes, idm, _ = _tree("node")
    norm = lambda r: (idm.seq(r[0]), idm(r[1]), idm.seq(r[2]))  # noqa
    _cmp(t, "C15", "Walker.walk", lambda: anytree.Walker().walk(nodes[2], nodes[4]), lambda: anytree.Walker().walk(start=nodes[2], end=nodes[4]), norm)
    _cmp(t, "C15", "Walker.walk (static use)", lambda: anytree.Walker.walk(nodes[4], nodes[2]), lambda: anytree.Walker().walk(nodes[4], nodes[2]), norm)


def _ctor(t, pid):
    import anytree

    def shape(root):
        out = []

        def go(nd, d):
            out.append((d, type(nd).__name__, getattr(nd, "name", None), getattr(nd, "extra", None)))
            for c in nd.children:
                go(c, d + 1)
        go(root, 0)
        return out

    def node_pos():
        p, c1, c2 = anytree.Node("p"), anytree.Node("c1"), anytree.Node("c2")
        anytree.Node("x", p, [c1, c2], extra=1)
        return shape(p)

    def node_kw():
        p, c1, c2 = anytree.Node("p"), anytree.Node("c1"), anytree.Node("c2")
        anytree.Node(name="x", parent=p, children=[c1, c2], extra=1)
        return shape(p)

    def any_pos():
        p, c1 = anytree.AnyNode(name="p"), anytree.AnyNode(name="c1")
        anytree.AnyNode(p, [c1], name="x", extra=2)
        return shape(p)

    def any_kw():
        p, c1 = anytree.AnyNode(name="p"), anytree.AnyNode(name="c1")
        anytree.AnyNode(parent=p, children=[c1], name="x", extra=2)
        return shape(p)

    def link_pos():
        tgt, p, c1 = anytree.Node("t"), anytree.Node("p"), anytree.Node("c1")
        ln = anytree.SymlinkNode(tgt, p, [c1], extra=3)
        return shape(p), ln.target is tgt, tgt.extra

    def link_kw():
        tgt, p, c1 = anytree.Node("t"), anytree.Node("p"), anytree.Node("c1")
        ln = anytree.SymlinkNode(target=tgt, parent=p, children=[c1], extra=3)
        return shape(p), ln.target is tgt, tgt.extra
    _cmp(t, pid, "Node(name, parent, children)", node_pos, node_kw)
    _cmp(t, pid, "AnyNode(parent, children)", any_pos, any_kw)
    _cmp(t, pid, "SymlinkNode(target, parent, children)", link_pos, link_kw)


def c02(t):
    _ctor(t, "C02")


def c20(t):
    _ctor(t, "C20")


FUNCS = {"C02": c02, "C20": c20, "C05": c05, "C06": c06, "C07": c07, "C08": c08, "C09": c09, "C10": c10, "C11": c11, "C12": c12, "C13": c13, "C14": c14, "C15": c15}


def job(pid):
    t = core.Tally()
    core.guard(t, pid, {"engine": "E2", "module": MOD, "pid": pid, "part": "positional"}, FUNCS[pid], t, _limit=60)
    return t


def replay(c):
    return [v["why"] for v in job(c["pid"]).violations]
