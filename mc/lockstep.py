"""Differential lock-step exploration for C17 / C18: the same (state, op, fault plan) is executed on two
universes of different node classes; outcomes, forests, hook logs and a complete query vector must agree."""
import io

from . import core, forest, traps


def _safe(f):
    try:
        return f()
    except Exception as exc:  # noqa - the exception class is the observation
        return "!" + type(exc).__name__


TUPLE_KIND = [False]   # the class under test is a tuple: its plain twin must be asked the same (restricted) questions


def qvec(nodes, labels, lab, exporters=True):
    """Everything a user can ask about the forest, expressed in labels only (never ==/hash/bool on nodes)."""
    import anytree
    from anytree import util

    seq = lambda it: [lab(x) for x in it]  # noqa
    out = {}
    stop_b = lambda n: lab(n) == "b"  # noqa
    hide_a = lambda n: lab(n) != "a"  # noqa
    its = (anytree.PreOrderIter, anytree.PostOrderIter, anytree.LevelOrderIter)
    gits = (anytree.LevelOrderGroupIter, anytree.ZigZagGroupIter)
    walker = anytree.Walker()
    res = anytree.Resolver("name")
    resr = anytree.Resolver("name", relax=True, ignorecase=True)
    for l, nd in zip(labels, nodes):
        v = {}
        v["nav"] = _safe(lambda: (seq(nd.path), seq(nd.ancestors), lab(nd.root), nd.depth, nd.is_root, nd.is_leaf, seq(nd.siblings),
                                  seq(nd.descendants), seq(nd.leaves), nd.size, nd.height))
        v["util"] = _safe(lambda: (lab(util.leftsibling(nd)), lab(util.rightsibling(nd)),
                                   [seq(util.commonancestors(nd, o)) for o in nodes], seq(util.commonancestors(nd, nd, nodes[0])),
                                   seq(util.commonancestors(nd)), seq(util.commonancestors())))
        v["iter"] = _safe(lambda: [seq(c(nd)) for c in its] + [[seq(g) for g in c(nd)] for c in gits])
        v["iter_r"] = _safe(lambda: [seq(c(nd, filter_=hide_a, stop=stop_b, maxlevel=2)) for c in its] +
                            [[seq(g) for g in c(nd, filter_=hide_a, stop=stop_b, maxlevel=2)] for c in gits])
        v["walk"] = [_safe(lambda o=o: (lambda r: (seq(r[0]), lab(r[1]), seq(r[2])))(walker.walk(nd, o))) for o in nodes]
        v["search"] = _safe(lambda: (seq(anytree.findall(nd, filter_=hide_a)), lab(anytree.find(nd, lambda n: lab(n) == "c")),
                                     seq(anytree.findall_by_attr(nd, "b")), lab(anytree.find_by_attr(nd, "a")),
                                     _safe(lambda: seq(anytree.findall(nd, mincount=2)))))
        v["render"] = _safe(lambda: ([(r.pre, r.fill, lab(r.node)) for r in anytree.RenderTree(nd, style=anytree.AsciiStyle())],
                                     anytree.RenderTree(nd).by_attr("name"),
                                     # (an attribute VALUE that is a tuple is rendered as several lines by definition: nodes
                                     #  that are tuples are therefore not used as by_attr values)
                                     anytree.RenderTree(nd).by_attr((lambda n: lab(n)) if isinstance(nd, tuple) or TUPLE_KIND[0] else (lambda n: n)),
                                     anytree.RenderTree(nd).by_attr("name" if isinstance(nd, tuple) or TUPLE_KIND[0] else "parent"),
                                     str(anytree.RenderTree(nd, maxlevel=2)),
                                     [(r.pre, lab(r.node)) for r in anytree.RenderTree(nd, childiter=reversed, maxlevel=2)]))
        paths = ["", ".", "..", "a", "b", "c", "d", "a/b", "../a", "/a", "/b/c", "/" + l, "../..", "x"]
        v["get"] = [_safe(lambda p=p: lab(res.get(nd, p))) for p in paths]
        v["get_relaxed"] = [_safe(lambda p=p: lab(resr.get(nd, p))) for p in paths + ["A", "/A/B"]]
        globs = ["*", "**", "*/..", "**/b", "?", "a*", "/*/*", "**/.."]
        v["glob"] = [_safe(lambda p=p: seq(res.glob(nd, p))) for p in globs]
        v["glob_relaxed"] = [_safe(lambda p=p: seq(resr.glob(nd, p))) for p in globs + ["x/y", "B"]]
        if exporters:
            from anytree.exporter import DictExporter, DotExporter, JsonExporter, MermaidExporter, UniqueDotExporter

            v["dot"] = _safe(lambda: list(DotExporter(nd, filter_=hide_a, maxlevel=3)))
            v["dot_plain"] = _safe(lambda: (list(DotExporter(nd)), list(MermaidExporter(nd)), list(UniqueDotExporter(nd, maxlevel=2))))
            v["udot"] = _safe(lambda: list(UniqueDotExporter(nd, stop=stop_b)))
            v["mermaid"] = _safe(lambda: list(MermaidExporter(nd, stop=stop_b, filter_=hide_a)))
            v["dict"] = _safe(lambda: repr(DictExporter(maxlevel=2).export(nd)))
            v["json"] = _safe(lambda: JsonExporter(sort_keys=True).export(nd))
        out[l] = v
    return out


def diff(a, b, path=""):
    if type(a) is not type(b):
        return "%s: %r vs %r" % (path, a, b)
    if isinstance(a, dict):
        for k in a:
            d = diff(a[k], b.get(k), "%s/%s" % (path, k))
            if d:
                return d
        return None
    if isinstance(a, (list, tuple)):
        if len(a) != len(b):
            return "%s: %r vs %r" % (path, a, b)
        for i, (x, y) in enumerate(zip(a, b)):
            d = diff(x, y, "%s[%d]" % (path, i))
            if d:
                return d
        return None
    return None if a == b else "%s: %r vs %r" % (path, a, b)


def universe_qvec(u, exporters):
    return qvec([u.nodes[l] for l in u.labels], list(u.labels), u.label_of, exporters)


def make_judge(pid):
    def judge(t, ex, witness, extra):
        kind2 = extra["kind2"]
        check_traps = extra.get("traps", False)
        exporters = extra.get("exporters", False)
        TUPLE_KIND[0] = ex.kind.startswith("trap:tuple")
        why = None
        if check_traps and traps.TRAPLOG:
            why = "library invoked %s on a node during the structural call" % sorted(set(traps.TRAPLOG))
            del traps.TRAPLOG[:]
        # same history, same op, same fault plan on the reference universe (ex.u was created second: re-arm)
        if ex.raise_at and ex.raise_at[0] == "reenter":
            ex2 = forest.execute(kind2, ex.n, witness, ex.op, ex.pre, reenter={ex.raise_at[1]: tuple(ex.raise_at[2:])})
        else:
            ex2 = forest.execute(kind2, ex.n, witness, ex.op, ex.pre, raise_at=ex.raise_at, persist=ex.persist,
                                 snap=bool(extra.get("snap")))
        forest.CUR[0] = ex.u
        t.c["lockstep_pairs"] += 1
        if why is None:
            if ex.outcome != ex2.outcome:
                why = "outcome differs: %s vs %s (%s)" % (ex.outcome, ex2.outcome, kind2)
            elif ex.post != ex2.post:
                why = "resulting forest differs from %s" % kind2
            elif [r[:3] for r in ex.log] != [r[:3] for r in ex2.log]:
                why = "hook invocations differ from %s" % kind2
        if ex.outcome != "ok" or ex.post != ex.pre:
            t.c["nontrivial"] += 1
        reentrant = bool(ex.raise_at and ex.raise_at[0] == "reenter")
        corrupt = forest.state_invariant(ex.post, ex.labels)
        if why is None and corrupt is not None and not reentrant:
            why = "forest is inconsistent after the call: %s" % corrupt
        # (hooks that move nodes re-entrantly may legitimately wreck the pinned code's links: only equality of the two
        #  universes is judged there, and no queries are asked on a wrecked forest)
        if why is None and corrupt is None and not ex.faults and not reentrant and extra.get("queries_after_ops", False):
            q1 = universe_qvec(ex.u, exporters)
            if check_traps and traps.TRAPLOG:
                why = "library invoked %s on a node while answering queries" % sorted(set(traps.TRAPLOG))
                del traps.TRAPLOG[:]
            forest.CUR[0] = ex2.u
            q2 = universe_qvec(ex2.u, exporters)
            forest.CUR[0] = ex.u
            t.c["query_vectors_compared"] += 1
            d = diff(q1, q2)
            if why is None and d:
                why = "query results differ from %s at %s" % (kind2, d)
        if why:
            c = forest.case_of(ex, witness, why)
            c["kind2"] = kind2
            c["judge"] = pid.lower()
            c["extra"] = {k: v for k, v in extra.items() if k != "known"}
            c["reference_observed"] = {"outcome": ex2.outcome, "state": forest.fmt_state(ex2.post, ex2.labels),
                                       "log": [list(r[:3]) for r in ex2.log]}
            t.violation("%s: %s" % (pid, why), c)

    return judge


def state_queries(kind, kind2, n, states, pid, traps_on, exporters):
    """Query vector on every reached state (rebuilt from its witness) in both universes."""
    t = core.Tally()
    for key, state, witness in states:
        core.guard(t, pid, {"engine": "E1", "module": "mc.lockstep", "part": "state_queries", "kind": kind, "kind2": kind2, "n": n,
                            "witness": [list(w) for w in witness], "traps": traps_on, "exporters": exporters},
                   _state_query_one, t, kind, kind2, n, key, state, witness, pid, traps_on, exporters, _limit=20)
    return t


def _state_query_one(t, kind, kind2, n, key, state, witness, pid, traps_on, exporters):
    TUPLE_KIND[0] = kind.startswith("trap:tuple")
    if True:
        u1 = forest.rebuild(kind, n, witness)
        u1.arm()
        del traps.TRAPLOG[:]
        q1 = universe_qvec(u1, exporters)
        why = None
        if traps_on and traps.TRAPLOG:
            why = "library invoked %s on a node while answering queries" % sorted(set(traps.TRAPLOG))
            del traps.TRAPLOG[:]
        u2 = forest.rebuild(kind2, n, witness)
        u2.arm()
        q2 = universe_qvec(u2, exporters)
        t.c["states"] += 1
        t.c["query_vectors_compared"] += 1
        t.obs((kind, kind2, key, "q"))
        d = diff(q1, q2)
        if why is None and d:
            why = "query results differ from %s at %s" % (kind2, d)
        if why:
            t.violation("%s: %s" % (pid, why), {"engine": "E1", "module": "mc.lockstep", "part": "state_queries", "kind": kind,
                                               "kind2": kind2, "n": n, "witness": [list(w) for w in witness], "traps": traps_on,
                                               "exporters": exporters, "forest": forest.fmt_state(state, list(forest.LABELS[:n])) if state else None})


def shape_queries(kind, kind2, shapes, pid, traps_on, exporters):
    """The same comparison on trees built from plane-tree shapes (sizes beyond the E1 universes)."""
    from . import tree

    t = core.Tally()
    for shape in shapes:
        core.guard(t, pid, {"engine": "E2", "module": "mc.lockstep", "part": "shape_queries", "kind": kind, "kind2": kind2,
                            "shape": shape, "traps": traps_on, "exporters": exporters},
                   _shape_query_one, t, kind, kind2, shape, pid, traps_on, exporters, _limit=20)
    return t


def _shape_query_one(t, kind, kind2, shape, pid, traps_on, exporters):
    from . import tree

    TUPLE_KIND[0] = kind.startswith("trap:tuple")

    cls = forest.classes()
    if True:
        m = tree.Model.from_shape(shape)
        qs = []
        why = None
        for k in (kind, kind2):
            forest.CUR[0] = _NullCtx()
            names = list(forest.LABELS[: m.n])
            nodes = [cls[k](names[i]) for i in range(m.n)]
            for i in range(m.n):
                if m.par[i] is not None:
                    nodes[i].parent = nodes[m.par[i]]
            lab = (lambda d: (lambda o: None if o is None else d.get(id(o), "?")))({id(nd): names[i] for i, nd in enumerate(nodes)})
            del traps.TRAPLOG[:]
            qs.append(qvec(nodes, names, lab, exporters))
            if traps_on and k == kind and traps.TRAPLOG:
                why = "library invoked %s on a node" % sorted(set(traps.TRAPLOG))
                del traps.TRAPLOG[:]
        t.c["states"] += 1
        t.c["query_vectors_compared"] += 1
        t.obs((kind, kind2, shape))
        d = diff(qs[0], qs[1])
        if why is None and d:
            why = "query results differ from %s at %s" % (kind2, d)
        if why:
            t.violation("%s: %s" % (pid, why), {"engine": "E2", "module": "mc.lockstep", "part": "shape_queries", "kind": kind,
                                               "kind2": kind2, "shape": shape, "traps": traps_on, "exporters": exporters})


def deep_chain(kind, kind2, pid):
    """Degenerate shapes: the two classes must also agree on chains far deeper than any small tree (3000 levels for the
    parent-walking attributes, 900 for the subtree-walking ones, under the default recursion limit)."""
    import sys
    import anytree

    t = core.Tally()

    def run():
        sys.setrecursionlimit(1000)
        cls = forest.classes()
        res = []
        for k in (kind, kind2):
            forest.CUR[0] = _NullCtx()
            out = {}
            for height, what in ((3000, "up"), (900, "down")):
                nodes = [cls[k]("n%d" % i) for i in range(height + 1)]
                for i in range(1, height + 1):
                    nodes[i].parent = nodes[i - 1]
                tip, top = nodes[-1], nodes[0]
                if what == "up":
                    out["up"] = _safe(lambda: (tip.depth, len(tip.path), tip.root is top, len(tip.ancestors), tip.is_root,
                                               len(anytree.Walker().walk(tip, top)[0]), len(list(anytree.LevelOrderIter(top))),
                                               len(list(anytree.LevelOrderGroupIter(top))), len(list(anytree.ZigZagGroupIter(top)))))
                else:
                    out["down"] = _safe(lambda: (top.size, len(top.descendants), len(top.leaves), len(list(anytree.PreOrderIter(top))),
                                                 len(list(anytree.PostOrderIter(top))), len(list(anytree.RenderTree(top)))))
                    out["height"] = _safe(lambda: nodes[450].height)
                for nd in nodes:
                    nd.parent = None
            res.append(out)
        t.c["evaluations"] += 1
        t.c["deep_chain_comparisons"] += 1
        d = diff(res[0], res[1])
        if d:
            t.violation("%s: results on a deep chain differ from %s at %s" % (pid, kind2, d),
                        {"engine": "E2", "module": "mc.lockstep", "part": "deep_chain", "kind": kind, "kind2": kind2})

    core.guard(t, pid, {"engine": "E2", "module": "mc.lockstep", "part": "deep_chain", "kind": kind, "kind2": kind2}, run, _limit=120)
    return t


class _NullCtx(object):
    def hook(self, *a):
        pass


def _tup(x):
    return tuple(_tup(i) for i in x) if isinstance(x, list) else x


def replay(c):
    pid = c["property"]
    if c.get("part") == "deep_chain":
        return [v["why"] for v in deep_chain(c["kind"], c["kind2"], pid).violations]
    if c.get("part") == "state_queries":
        t = state_queries(c["kind"], c["kind2"], c["n"], [(None, None, _tup(c["witness"]))], pid, c["traps"], c["exporters"])
    else:
        t = shape_queries(c["kind"], c["kind2"], [_tup(c["shape"])], pid, c["traps"], c["exporters"])
    return [v["why"] for v in t.violations]
