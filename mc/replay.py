"""./check --replay <file>: re-execute one recorded violating case against the real code (no exploration).
Exit 1 (and a VIOLATION line) if it still fails, 0 if it no longer does."""
import importlib
import json
import sys

from . import core


def _tup(x):
    if isinstance(x, list):
        return tuple(_tup(i) for i in x)
    return x


def replay_e1(case):
    from . import e1run, forest

    pid = case["property"]
    kind, n = case["kind"], case["n"]
    witness = _tup(case["witness"])
    op = _tup(case["op"])
    u = forest.rebuild(kind, n, witness)
    pre = u.state()
    judge = case.get("judge") or pid.lower()
    re = case.get("reenter")
    ex = forest.execute(kind, n, witness, op, pre, raise_at=tuple(case.get("raise_at") or ()),
                        persist=_tup(case["persistent"]) if case.get("persistent") else None,
                        snap=(judge == "c16"), reenter={re[1]: _tup(re[2:])} if re else None,
                        stack_budget=case.get("stack_budget"))
    t = core.Tally()
    extra = {"known": core.load_known_findings(pid)}
    jf = e1run.JUDGES.get(judge)
    if jf is None and judge in ("c17", "c18"):
        from . import lockstep

        jf = lockstep.make_judge(pid)
        extra.update(case.get("extra") or {})
    elif jf is None:
        jf = importlib.import_module("mc.props.%s" % judge).JUDGE
    jf(t, ex, witness, extra)
    print("replayed: kind=%s witness=%s op=%s raise_at=%s persistent=%s" % (kind, list(witness), list(op), case.get("raise_at"), case.get("persistent")))
    print("observed: outcome=%s state=%s" % (ex.outcome, forest.fmt_state(ex.post, ex.labels)))
    return [v["why"] for v in t.violations]


def main(path):
    with open(path) as f:
        case = json.load(f)
    assertions = int(case.get("assertions", 0))
    core.load_anytree(assertions)
    if case.get("engine") == "E1" and not case.get("module"):
        why = replay_e1(case)
    else:
        mod = importlib.import_module(case["module"])
        why = mod.replay(case)
    if why:
        print("VIOLATION property=%s replay=%s" % (case.get("property"), path))
        for w in why[:3]:
            print("   " + str(w))
        return 1
    print("replay: the recorded case no longer violates %s" % case.get("property"))
    return 0
