"""Module-level (hence picklable) user node classes for C19.  Import only after anytree is importable."""
from anytree import LightNodeMixin, NodeMixin, SymlinkNodeMixin


class PUser(NodeMixin):
    def __init__(self, name, data=None):
        self.name = name
        self.data = data


class PFalsy(PUser):
    """A container-like node: empty, hence falsy."""

    def __len__(self):
        return 0

    def __iter__(self):
        return iter(())


class PSlotExtra(NodeMixin):
    """A NodeMixin class whose state is not entirely in __dict__: one extra slot."""

    __slots__ = ("extra",)

    def __init__(self, name, data=None):
        self.name = name
        self.data = data
        self.extra = ("slot", name)


class PDictNode(NodeMixin, dict):
    """A node that is also a mapping: its items are state outside __dict__."""

    def __init__(self, name, data=None):
        dict.__init__(self, key=name, payload=data)
        self.name = name
        self.data = data

    # a mapping node is still compared by identity here
    __hash__ = object.__hash__

    def __eq__(self, other):
        return self is other

    def __ne__(self, other):
        return self is not other


class PLink(SymlinkNodeMixin):
    """The documented minimal way to build a link class: derive from SymlinkNodeMixin and set target."""

    def __init__(self, target):
        self.target = target


class PLight(LightNodeMixin):
    __slots__ = ("name", "data")

    def __init__(self, name, data=None):
        self.name = name
        self.data = data


_COUNT = [0]


def fresh_slotted_pair():
    """A fresh, importable (hence picklable) pair of slotted classes Item_k(LightNodeMixin) / Weighted_k(Item_k): state
    kept per class inside the library (e.g. a cache filled at first use) starts empty for them."""
    import sys

    k = _COUNT[0]
    _COUNT[0] += 1
    mod = sys.modules[__name__]

    def init_item(self, name, data=None):
        self.name = name
        self.data = data

    item = type("Item_%d" % k, (LightNodeMixin,), {"__slots__": ("name", "data"), "__init__": init_item, "__module__": __name__})

    def init_w(self, name, data=None, weight=0):
        item.__init__(self, name, data)
        self.weight = weight

    weighted = type("Weighted_%d" % k, (item,), {"__slots__": ("weight",), "__init__": init_w, "__module__": __name__})
    setattr(mod, item.__name__, item)
    setattr(mod, weighted.__name__, weighted)
    return item, weighted


def fresh_light_dict_subclass():
    """A fresh importable pair Item_k(LightNodeMixin, slotted) / Noted_k(Item_k) where the subclass declares NO __slots__
    (legal: its instances get a __dict__ next to the inherited slots)."""
    import sys

    k = _COUNT[0]
    _COUNT[0] += 1

    def init_item(self, name, data=None):
        self.name = name
        self.data = data

    item = type("DItem_%d" % k, (LightNodeMixin,), {"__slots__": ("name", "data"), "__init__": init_item, "__module__": __name__})
    noted = type("Noted_%d" % k, (item,), {"__module__": __name__})
    setattr(sys.modules[__name__], item.__name__, item)
    setattr(sys.modules[__name__], noted.__name__, noted)
    return item, noted


class PLabel(object):
    """A domain object used as a node's name / attribute value that knows 'its' node (back-reference into the tree)."""

    def __init__(self, text):
        self.text = text
        self.node = None

    def __str__(self):
        return self.text

    __repr__ = __str__

    def __eq__(self, other):
        return isinstance(other, PLabel) and other.text == self.text

    def __ne__(self, other):
        return not self == other

    def __hash__(self):
        return hash(self.text)
