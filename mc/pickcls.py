"""Module-level (hence picklable) user node classes for C19.  Import only after anytree is importable."""
from anytree import LightNodeMixin, NodeMixin


class PUser(NodeMixin):
    def __init__(self, name, data=None):
        self.name = name
        self.data = data


class PFalsy(PUser):
    """A container-like node: empty, hence falsy."""

    def __len__(self):
        return 0

    def __iter__(self):
        return iter(())


class PLight(LightNodeMixin):
    __slots__ = ("name", "data")

    def __init__(self, name, data=None):
        self.name = name
        self.data = data
