"""Reference models for the structural operations.

SpecModel  - declarative, written from the property statements (C02, C03, C16) only.
AsIsModel  - transcription of the *current* setter / deleter / roll-back algorithm under a fault plan;
             used ONLY to recognise the exact damage of the known findings (never as an oracle).
States are tuples over labels of (parent label | None, tuple of children labels).
"""
from .forest import InjectedFault

UNDEFINED = "undefined"  # the statements fix nothing here: only the C01 invariants are judged


def _idx(labels):
    return {l: i for i, l in enumerate(labels)}


def ancestors(state, ix, n):
    out = []
    p = state[ix[n]][0]
    while p is not None:
        out.append(p)
        p = state[ix[p]][0]
    return out


def _is_node_tok(tok):
    return tok is None or not (isinstance(tok, str) and tok.startswith("#"))


def _move(state, labels, ix, n, p):
    """n removed from its old parent's children (order kept), appended to p's children (or root)."""
    st = [list(x) for x in state]
    old = st[ix[n]][0]
    if old is not None:
        st[ix[old]][1] = tuple(c for c in st[ix[old]][1] if c != n)
    st[ix[n]][0] = p
    if p is not None:
        st[ix[p]][1] = tuple(st[ix[p]][1]) + (n,)
    return tuple((a, tuple(b)) for a, b in st)


def spec_setp(state, labels, n, p, nodemixin):
    """-> (outcome, state', hooklog).  outcome in ok | noop | TreeError | LoopError | raises | undefined"""
    ix = _idx(labels)
    if not _is_node_tok(p):
        if nodemixin:
            return "TreeError", state, []
        return UNDEFINED, state, None
    old = state[ix[n]][0]
    if p == old:
        return "noop", state, []
    if p is not None and (p == n or n in ancestors(state, ix, p)):
        return "LoopError", state, []
    log = []
    if old is not None:
        log += [("_pre_detach", n, old), ("_post_detach", n, old)]
    if p is not None:
        log += [("_pre_attach", n, p), ("_post_attach", n, p)]
    return "ok", _move(state, labels, ix, n, p), log


def spec_delc(state, labels, n):
    ix = _idx(labels)
    old = state[ix[n]][1]
    st = state
    log = [("_pre_detach_children", n, old)]
    for c in old:
        st = _move(st, labels, ix, c, None)
        log += [("_pre_detach", c, n), ("_post_detach", c, n)]
    log.append(("_post_detach_children", n, old))
    return "ok", st, log


def spec_setc(state, labels, n, xs, nodemixin):
    ix = _idx(labels)
    if isinstance(xs, str):  # whole-value tokens
        if xs in ("#None", "#7"):
            return "raises", state, None
        if xs == "#str":  # iterable of non-nodes
            return ("TreeError", state, []) if nodemixin else (UNDEFINED, state, None)
    xs = tuple(xs)
    nonnode = any(not _is_node_tok(x) for x in xs)
    dup = len(set(xs)) != len(xs)
    if nodemixin and (nonnode or dup):
        return "TreeError", state, []
    if not nodemixin:
        if nonnode:
            return UNDEFINED, state, None  # TreeError (dup seen first) or anything else: not fixed by the statements
        if dup:
            return "TreeError", state, []
    anc = ancestors(state, ix, n)
    if any(x == n or x in anc for x in xs):
        return "LoopError", state, None  # hooks of the refused call are not fixed by the statements
    old = state[ix[n]][1]
    st = state
    log = [("_pre_detach_children", n, old)]
    for c in old:
        st = _move(st, labels, ix, c, None)
        log += [("_pre_detach", c, n), ("_post_detach", c, n)]
    log.append(("_post_detach_children", n, old))
    log.append(("_pre_attach_children", n, xs))
    for x in xs:
        q = st[ix[x]][0]
        if q is not None:
            log += [("_pre_detach", x, q), ("_post_detach", x, q)]
        st = _move(st, labels, ix, x, n)
        log += [("_pre_attach", x, n), ("_post_attach", x, n)]
    log.append(("_post_attach_children", n, xs))
    # declarative cross-check of the result (C02 wording)
    assert st[ix[n]][1] == xs
    return "ok", st, log


def spec_apply(state, labels, op, nodemixin_of):
    """nodemixin_of(label) -> bool.  Returns (outcome, state', hooklog|None)."""
    kind = op[0]
    if kind == "read":
        return "noop", state, []
    if kind == "setp":
        return spec_setp(state, labels, op[1], op[2], nodemixin_of(op[1]))
    if kind == "delc":
        return spec_delc(state, labels, op[1])
    if kind == "setc":
        return spec_setc(state, labels, op[1], op[2], nodemixin_of(op[1]))
    if kind == "new":
        # fresh root z; parent = p; if xs: children = xs  (the constructors behave like the assignments)
        z, p, xs = op[1], op[3], op[4]
        labels2 = list(labels) + [z]
        st = tuple(state) + ((None, ()),)
        o1, st1, log1 = spec_setp(st, labels2, z, p, True)
        if o1 not in ("ok", "noop"):
            return o1, st1, log1
        if not xs:
            return "ok", st1, log1
        o2, st2, log2 = spec_setc(st1, labels2, z, xs, True)
        if o2 != "ok":
            return o2, st2, None
        return "ok", st2, (log1 or []) + log2
    raise ValueError(op)


# ---------------------------------------------------------------------------------------------


class ModelLoop(Exception):
    pass


class ModelTree(Exception):
    pass


class AsIs(object):
    """The current algorithm on an abstract state, driven by the same fault plan as the real code."""

    def __init__(self, state, labels, raise_at=(), persist=None):
        self.labels = list(labels)
        self.par = {l: state[i][0] for i, l in enumerate(labels)}
        self.ch = {l: list(state[i][1]) for i, l in enumerate(labels)}
        self.k = 0
        self.raise_at = frozenset(raise_at)
        self.persist = persist
        self.log = []

    def hook(self, name, n, arg):
        i = self.k
        self.k += 1
        self.log.append((name, n, arg))
        p = self.persist
        if i in self.raise_at or (p is not None and i >= p[2] and name == p[0] and n == p[1]):
            raise InjectedFault("model %s(%s) #%d" % (name, n, i))

    def state(self):
        return tuple((self.par[l], tuple(self.ch[l])) for l in self.labels)

    def path_rev(self, n):
        while n is not None:
            yield n
            n = self.par[n]

    def set_parent(self, n, p):
        old = self.par[n]
        if old != p:
            if p is not None:
                if p == n:
                    raise ModelLoop()
                if any(c == n for c in self.path_rev(p)):
                    raise ModelLoop()
            if old is not None:
                self.hook("_pre_detach", n, old)
                self.ch[old] = [c for c in self.ch[old] if c != n]
                self.par[n] = None
                self.hook("_post_detach", n, old)
            if p is not None:
                self.hook("_pre_attach", n, p)
                self.ch[p].append(n)
                self.par[n] = p
                self.hook("_post_attach", n, p)

    def del_children(self, n):
        ch = tuple(self.ch[n])
        self.hook("_pre_detach_children", n, ch)
        for c in ch:
            self.set_parent(c, None)
        self.hook("_post_detach_children", n, ch)

    def set_children(self, n, xs):
        xs = tuple(xs)
        if len(set(xs)) != len(xs):
            raise ModelTree()
        old = tuple(self.ch[n])
        self.del_children(n)
        try:
            self.hook("_pre_attach_children", n, xs)
            path = tuple(self.path_rev(n))
            for x in xs:
                if x == n or x in path:
                    raise ModelLoop()
            for x in xs:
                self.set_parent(x, n)
            self.hook("_post_attach_children", n, xs)
        except Exception:
            self.set_children(n, old)
            raise

    def apply(self, op):
        """-> outcome name"""
        try:
            if op[0] == "setp":
                self.set_parent(op[1], op[2])
            elif op[0] == "delc":
                self.del_children(op[1])
            elif op[0] == "setc":
                self.set_children(op[1], op[2])
            else:
                raise ValueError(op)
            return "ok"
        except InjectedFault:
            return "InjectedFault"
        except ModelLoop:
            return "LoopError"
        except ModelTree:
            return "TreeError"
        except RecursionError:
            return "RecursionError"
