"""./check <ID> [--tier quick|thorough] | --replay <file> | --selftest"""
import argparse
import importlib
import json
import os
import sys

from . import core


def main(argv=None):
    ap = argparse.ArgumentParser()
    ap.add_argument("pid", nargs="?")
    ap.add_argument("--tier", default=os.environ.get("VERIF_TIER", "quick"), choices=("quick", "thorough"))
    ap.add_argument("--replay")
    ap.add_argument("--selftest", action="store_true")
    args = ap.parse_args(argv)
    os.environ.setdefault("PYTHONHASHSEED", "0")
    if args.selftest:
        from . import selftest

        return selftest.main()
    if args.replay:
        from . import replay

        return replay.main(args.replay)
    if not args.pid:
        ap.error("property id required")
    pid = args.pid.upper()
    mod = importlib.import_module("mc.props.%s" % pid.lower())
    tm = core.Timer()
    print("== %s  tier=%s  seed=%d  repo=%s  nproc=%d" % (pid, args.tier, core.SEED, core.REPO, core.NPROC))
    sys.stdout.flush()
    import signal

    def _timeout(signum, frame):
        raise core.HarnessError("wall-clock limit exceeded (VERIF_TIMEOUT_S)")

    signal.signal(signal.SIGALRM, _timeout)
    signal.alarm(int(os.environ.get("VERIF_TIMEOUT_S", "1500" if args.tier == "quick" else "14400")))
    try:
        res = mod.run(args.tier)
        signal.alarm(0)
    except core.HarnessError as exc:
        print("HARNESS-ERROR %s: %s" % (pid, exc))
        return 2
    t = res["tally"]
    if t.errors:
        for e in t.errors[:5]:
            print("HARNESS-ERROR %s: %s" % (pid, e))
        return 2
    cov = dict(res["coverage"])
    cov.setdefault("exhaustive", True)
    cov["digest"] = "%016x" % t.digest
    cov["counters"] = {k: v for k, v in sorted(t.c.items())}
    cov["known_findings_seen"] = dict(t.known)
    if not cov.get("samples"):
        cov["samples"] = t.samples[:4]
    # vacuity guards: a check whose feature was never exercised is broken, not green
    for g in res.get("guards", ()):
        if t.c.get(g, 0) <= 0 and not t.c.get("violations", 0):
            print("HARNESS-ERROR %s: vacuity guard %r is zero" % (pid, g))
            return 2
    nviol = t.c.get("violations", 0)
    if core.CAPPED:
        cov["exhaustive"] = False
        cov["capped"] = list(core.CAPPED)
        if not nviol:
            for c in core.CAPPED:
                print("HARNESS-ERROR %s: %s - the bounded space could not be covered, nothing is claimed" % (pid, c))
            return 2
    core.write_evidence(pid, args.tier, cov, tm.s(), nviol, res.get("assumptions", ()))
    for kfid, cnt in sorted(t.known.items()):
        what = res.get("known", {}).get(kfid, {}).get("what", "")
        print("KNOWN-FINDING: property=%s %s instances=%d %s" % (pid, kfid, cnt, what))
    print("-- %s: states=%s transitions=%s evaluations=%s distinct_nontrivial=%s digest=%s wall=%.1fs" % (
        pid, cov.get("states"), cov.get("transitions"), cov.get("evaluations"), cov.get("distinct_nontrivial"),
        cov["digest"], tm.s()))
    if nviol:
        seen = set()
        for v in t.violations:
            case = dict(v["case"])
            case["property"] = pid
            case.setdefault("why", v["why"])
            case["repo"] = core.REPO
            path = core.write_replay(pid, case)
            if path in seen:
                continue
            seen.add(path)
            print("VIOLATION property=%s replay=%s" % (pid, path))
            print("   " + v["why"])
            if len(seen) >= 5:
                break
        print("-- %s: %d violating cases in total" % (pid, nviol))
        return 1
    print("OK %s" % pid)
    return 0


if __name__ == "__main__":
    sys.exit(main())
