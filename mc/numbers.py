"""Numbers that are not small ints where a level limit is expected: bool, integral float, huge int, float("inf").

For every public callable with a `maxlevel` parameter behind C09-C13 the result with such a value must equal the result with
the int it equals (True == 1, 2.0 == 2) resp. with no limit (10**30, 2**63, inf).  The int / None semantics themselves are
what the exhaustive checks of each property establish; this is a differential on one fixed tree (listed under
`unusual_number_calls` in the evidence, not an enumeration).  Non-integral limits (2.5) are left out: the statement speaks
of levels, and the pinned implementation itself does not treat them uniformly.

Tree (pre-order index: name):  0:r -> (1:a -> (2:c -> (5:e), 3:d), 4:b)
"""
import io

from . import core, tree

MOD = "mc.numbers"
PAIRS = ((True, 1), (2.0, 2), (1.0, 1), (3.0, 3), (10 ** 30, None), (2 ** 63, None), (float("inf"), None))


def _tree():
    import anytree

    r = anytree.Node("r", x=0)
    a = anytree.Node("a", parent=r, x=1)
    c = anytree.Node("c", parent=a, x=2)
    anytree.Node("e", parent=c, x=5)
    anytree.Node("d", parent=a, x=3)
    anytree.Node("b", parent=r, x=4)
    return r


def _cmp(t, pid, what, f, pairs=PAIRS):
    for mlv, eq in pairs:
        t.c["evaluations"] += 1
        t.c["unusual_number_calls"] += 1

        def run(v):
            try:
                return ("ok", f(v))
            except Exception as exc:  # noqa
                return ("raised", type(exc).__name__)
        a, b = run(mlv), run(eq)
        if a != b or b[0] != "ok":
            t.violation("%s: %s with maxlevel=%r differs from maxlevel=%r" % (pid, what, mlv, eq),
                        {"engine": "E2", "module": MOD, "pid": pid, "part": "numbers", "call": what, "maxlevel": repr(mlv),
                         "observed": repr(a)[:300], "expected": repr(b)[:300]})


def c09(t):
    import anytree

    r = _tree()
    _cmp(t, "C09", "RenderTree", lambda v: [(row.pre, row.fill, row.node.name) for row in anytree.RenderTree(r, maxlevel=v)])
    _cmp(t, "C09", "RenderTree.by_attr", lambda v: anytree.RenderTree(r, style=anytree.AsciiStyle(), maxlevel=v).by_attr("x"))


def c10(t):
    from anytree.exporter import DictExporter

    r = _tree()
    # DictExporter: "nodes at relative depth >= maxlevel are cut" is meaningful for any number: 2.5 cuts like 3
    _cmp(t, "C10", "DictExporter", lambda v: repr(DictExporter(maxlevel=v).export(r)), PAIRS + ((2.5, 3), (1.5, 2), (0.5, 1)))
    _cmp(t, "C10", "DictExporter (start below the root)", lambda v: repr(DictExporter(maxlevel=v).export(r.children[0])))


def c11(t):
    from anytree.exporter import DictExporter, JsonExporter

    r = _tree()
    _cmp(t, "C11", "JsonExporter.export", lambda v: JsonExporter(maxlevel=v, sort_keys=True).export(r))

    def w(v):
        buf = io.StringIO()
        JsonExporter(dictexporter=DictExporter(), maxlevel=v).write(r, buf)
        return buf.getvalue()
    _cmp(t, "C11", "JsonExporter.write", w)


def c12(t):
    from anytree.exporter import DotExporter, UniqueDotExporter

    r = _tree()
    _cmp(t, "C12", "DotExporter", lambda v: list(DotExporter(r, maxlevel=v)))
    _cmp(t, "C12", "UniqueDotExporter", lambda v: len(list(UniqueDotExporter(r, maxlevel=v))))
    _cmp(t, "C12", "DotExporter (start below the root, filter)", lambda v: list(DotExporter(r.children[0], maxlevel=v, filter_=lambda n: n.name != "d")))


def c13(t):
    from anytree.exporter import MermaidExporter

    r = _tree()
    _cmp(t, "C13", "MermaidExporter", lambda v: list(MermaidExporter(r, maxlevel=v)))
    _cmp(t, "C13", "MermaidExporter (start below the root)", lambda v: list(MermaidExporter(r.children[0], maxlevel=v)))


FUNCS = {"C09": c09, "C10": c10, "C11": c11, "C12": c12, "C13": c13}


def job(pid):
    t = core.Tally()
    core.guard(t, pid, {"engine": "E2", "module": MOD, "pid": pid, "part": "numbers"}, FUNCS[pid], t, _limit=60)
    return t


def replay(c):
    return [v["why"] for v in job(c["pid"]).violations]
