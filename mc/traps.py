"""Adversarial node classes for C17: every comparison / hash / truth / container special method records
its invocation in TRAPLOG and then answers adversarially.  The harness never applies ==, in, bool(),
len(), hash() or iteration to a node, so any entry in TRAPLOG was caused by the library."""

TRAPLOG = []

ARCHETYPES = ("eq", "ne", "falsy", "len0", "unhash", "raise", "all")
TUPLES = ("tuple0", "tuple1", "tuple2")   # NodeMixin only


class TrapError(Exception):
    pass


def _rec(name, answer):
    def method(self, *args):
        TRAPLOG.append(name)
        if answer is TrapError:
            raise TrapError(name)
        if callable(answer):
            return answer()
        return answer

    method.__name__ = name
    return method


def _getitem_raises(self, key):
    TRAPLOG.append("__getitem__")
    raise IndexError(key)


def _methods(arch):
    m = {}
    if arch in ("eq", "unhash", "all"):
        m["__eq__"] = _rec("__eq__", True)
        m["__ne__"] = _rec("__ne__", False)
        for o in ("__lt__", "__le__", "__gt__", "__ge__"):
            m[o] = _rec(o, True)
        if arch == "eq":
            m["__hash__"] = _rec("__hash__", 1)
        else:
            m["__hash__"] = None
    if arch == "ne":
        m["__eq__"] = _rec("__eq__", False)
        m["__ne__"] = _rec("__ne__", True)
        for o in ("__lt__", "__le__", "__gt__", "__ge__"):
            m[o] = _rec(o, False)
        m["__hash__"] = _rec("__hash__", 7)
    if arch in ("falsy", "all"):
        m["__bool__"] = _rec("__bool__", False)
    if arch in ("len0", "all"):
        m["__len__"] = _rec("__len__", 0)
        m["__iter__"] = _rec("__iter__", lambda: iter(()))
        m["__contains__"] = _rec("__contains__", False)
        m["__getitem__"] = _getitem_raises
    if arch == "raise":
        for o in ("__eq__", "__ne__", "__lt__", "__le__", "__gt__", "__ge__", "__hash__", "__bool__", "__len__",
                  "__iter__", "__contains__", "__getitem__"):
            m[o] = _rec(o, TrapError)
    return m


def install(classes, hooks):
    from anytree import LightNodeMixin, NodeMixin

    def init(self, name):
        self.name = name

    def rep(self):
        return "<%s 100%% %%s>" % (self.name,)

    for arch in ARCHETYPES:
        d = dict(hooks)
        d.update(_methods(arch))
        d["__init__"] = init
        d["__repr__"] = rep
        classes["trap:" + arch] = type("Trap_" + arch, (NodeMixin,), d)
        d = dict(d)
        d["__slots__"] = ("name",)
        classes["trap:light:" + arch] = type("TrapLight_" + arch, (LightNodeMixin,), d)
    # node classes that ARE tuples (record-like nodes: namedtuple + NodeMixin).  No special method is overridden, so nothing
    # is recorded; what differs from the plain twin is what the interpreter itself does with a tuple: "%s" % node unpacks
    # it, isinstance(node, (list, tuple)) is true, it is iterable, has a length (0 = falsy) and compares by value.
    # (LightNodeMixin has non-empty __slots__ and cannot be combined with tuple.)
    import collections

    for width in (0, 1, 2):
        base = collections.namedtuple("Rec%d" % width, ["f%d" % i for i in range(width)])
        d = dict(hooks)
        d["__new__"] = (lambda b, w: lambda cls, *a: b.__new__(cls, *(["rec"] * w)))(base, width)
        d["__init__"] = init
        d["__repr__"] = rep
        classes["trap:tuple%d" % width] = type("TupleNode%d" % width, (base, NodeMixin), d)
    # plain named twins used as the differential reference

    classes["named"] = type("Named", (NodeMixin,), dict(hooks, __init__=init, __repr__=rep))
    classes["named:light"] = type("NamedLight", (LightNodeMixin,), dict(hooks, __init__=init, __repr__=rep, __slots__=("name",)))
