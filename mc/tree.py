"""E2 shared parts: bounded-exhaustive plane-tree shapes, an index model with reference semantics written
from the definitions (independent of anytree), and builders that create the real trees through the
public API.  Node i of a shape is its pre-order index; real nodes are mapped back with id()."""
import functools
import itertools

from . import core


@functools.lru_cache(maxsize=None)
def _forests(n):
    """All ordered forests with n nodes, as tuples of trees; a tree is the tuple of its child trees."""
    if n == 0:
        return ((),)
    out = []
    for k in range(1, n + 1):  # size of the first tree
        for first_children in _forests(k - 1):
            for rest in _forests(n - k):
                out.append((first_children,) + rest)
    return tuple(out)


def plane_trees(n):
    """All ordered rooted trees with n nodes (Catalan(n-1) of them)."""
    return _forests(n - 1)  # a tree with n nodes = root + forest of n-1 nodes (the tuple of child trees)


def forests(n):
    return _forests(n)


class Model(object):
    """Index model of one ordered forest: par[i], ch[i]; indices are pre-order positions."""

    def __init__(self, par, ch):
        self.par = list(par)
        self.ch = [list(c) for c in ch]
        self.n = len(self.par)

    @classmethod
    def from_shape(cls, shape):
        return cls.from_forest((shape,))

    @classmethod
    def from_forest(cls, trees):
        par, ch = [], []

        def add(tree, p):
            i = len(par)
            par.append(p)
            ch.append([])
            if p is not None:
                ch[p].append(i)
            for sub in tree:
                add(sub, i)

        for t in trees:
            add(t, None)
        return cls(par, ch)

    @classmethod
    def from_state(cls, state, labels):
        ix = {l: i for i, l in enumerate(labels)}
        par = [None if p is None else ix[p] for p, _ in state]
        ch = [[ix[c] for c in cs] for _, cs in state]
        return cls(par, ch)

    # -- definitions (C04) -----------------------------------------------------------------------
    def path(self, i):
        out = []
        while i is not None:
            out.append(i)
            i = self.par[i]
        return out[::-1]

    def ancestors(self, i):
        return self.path(i)[:-1]

    def root(self, i):
        return self.path(i)[0]

    def depth(self, i):
        return len(self.path(i)) - 1

    def siblings(self, i):
        p = self.par[i]
        return [] if p is None else [c for c in self.ch[p] if c != i]

    def pre(self, i):
        out = [i]
        for c in self.ch[i]:
            out += self.pre(c)
        return out

    def descendants(self, i):
        return self.pre(i)[1:]

    def leaves(self, i):
        return [v for v in self.pre(i) if not self.ch[v]]

    def size(self, i):
        return len(self.pre(i))

    def height(self, i):
        return 0 if not self.ch[i] else 1 + max(self.height(c) for c in self.ch[i])

    def leftsibling(self, i):
        p = self.par[i]
        if p is None:
            return None
        k = self.ch[p].index(i)
        return self.ch[p][k - 1] if k > 0 else None

    def rightsibling(self, i):
        p = self.par[i]
        if p is None:
            return None
        k = self.ch[p].index(i)
        return self.ch[p][k + 1] if k + 1 < len(self.ch[p]) else None

    def commonancestors(self, *nodes):
        if not nodes:
            return []
        chains = [self.ancestors(v) for v in nodes]
        out = []
        for col in zip(*chains):
            if all(c == col[0] for c in col):
                out.append(col[0])
            else:
                break
        return out

    # -- traversal orders (C05) ----------------------------------------------------------------------
    def post(self, i):
        out = []
        for c in self.ch[i]:
            out += self.post(c)
        return out + [i]

    def groups(self, i):
        out, cur = [], [i]
        while cur:
            out.append(cur)
            cur = [c for v in cur for c in self.ch[v]]
        return out

    def level(self, i):
        return [v for g in self.groups(i) for v in g]

    def zigzag(self, i):
        return [g[::-1] if k % 2 else g for k, g in enumerate(self.groups(i))]

    # -- restrictions (C06) ----------------------------------------------------------------------------
    def admitted(self, start, stopset, maxlevel):
        """Nodes of start's subtree at relative depth < maxlevel with no stopped node on the path from start."""
        out = set()

        def go(v, d):
            if maxlevel is not None and d >= maxlevel:
                return
            if v in stopset:
                return
            out.add(v)
            for c in self.ch[v]:
                go(c, d + 1)

        go(start, 0)
        return out

    def restricted(self, start, stopset, hidden, maxlevel):
        """Expected outputs of the five iterators under (filter_ hides `hidden`, stop, maxlevel)."""
        adm = self.admitted(start, stopset, maxlevel)
        vis = lambda seq: [v for v in seq if v in adm and v not in hidden]  # noqa
        groups = []
        for g in self.groups(start):
            if any(v in adm for v in g):
                groups.append(vis(g))
        return {
            "pre": vis(self.pre(start)),
            "post": vis(self.post(start)),
            "level": vis(self.level(start)),
            "groups": groups,
            "zigzag": [g[::-1] if k % 2 else g for k, g in enumerate(groups)],
        }, adm

    def snapshot(self):
        return (tuple(self.par), tuple(tuple(c) for c in self.ch))


# ---------------------------------------------------------------------------------------------
# real trees

_PLAIN = {}


def plain_classes():
    if _PLAIN:
        return _PLAIN
    from anytree import AnyNode, LightNodeMixin, Node, NodeMixin

    class UserNode(NodeMixin):
        def __init__(self, name):
            self.name = name

        def __repr__(self):
            return "UserNode(%r)" % (self.name,)

    class UserLight(LightNodeMixin):
        __slots__ = ("name",)

        def __init__(self, name):
            self.name = name

        def __repr__(self):
            return "UserLight(%r)" % (self.name,)

    class Weird(UserNode):
        """A user class with its own comparison / truth / container protocol (still just a node)."""

        __hash__ = None

        def __eq__(self, other):
            return True

        def __ne__(self, other):
            return False

        def __bool__(self):
            return False

        def __len__(self):
            return 0

        def __iter__(self):
            return iter(())

        def __contains__(self, item):
            return False

    class EqHash(UserNode):
        """Value semantics: all instances are equal and hash alike (still distinct nodes)."""

        def __eq__(self, other):
            return isinstance(other, EqHash)

        def __ne__(self, other):
            return not isinstance(other, EqHash)

        def __hash__(self):
            return 7

    class Falsy(UserNode):
        """A container-like node whose payload is empty: falsy, but a node."""

        def __len__(self):
            return 0

    class FalsyLight(UserLight):
        __slots__ = ()

        def __bool__(self):
            return False

        def __eq__(self, other):
            return isinstance(other, FalsyLight)

        def __hash__(self):
            return 3

    class Container(UserNode):
        """A realistic container-like node: len(), iteration, indexing and `in` refer to its children."""

        def __len__(self):
            return len(self.children)

        def __iter__(self):
            return iter(self.children)

        def __getitem__(self, key):
            return self.children[key]

        def __contains__(self, item):
            return any(item is c for c in self.children)

    class NoRepr(UserNode):
        """A node whose repr() is not available (e.g. needs an attribute that is set later)."""

        def __repr__(self):
            raise RuntimeError("repr() of this node is not available")

    import collections

    class TupleNode(collections.namedtuple("Record", "f0 f1"), NodeMixin):
        """A record-like node: the node IS a tuple (iterable, sized, compares by value, '%s' % node unpacks it)."""

        def __new__(cls, name):
            return super(TupleNode, cls).__new__(cls, "rec", 2)

        def __init__(self, name):
            self.name = name

        def __repr__(self):
            return "TupleNode(%r)" % (self.name,)

    class DataNode(UserNode):
        """Application data under attribute names that merely LOOK like bookkeeping (single underscore, other spellings):
        they are the user's and have nothing to do with the tree."""

        def __init__(self, name):
            self.name = name
            self._parent = "record-17"
            self._children = 5
            self._root = None
            self.parent_ = self
            self.__dict__["__parent"] = 0
            self.__dict__["__children"] = ("x",)

    class Tuple0(tuple, NodeMixin):
        """The empty record: additionally falsy."""

        def __new__(cls, name):
            return super(Tuple0, cls).__new__(cls)

        def __init__(self, name):
            self.name = name

        def __repr__(self):
            return "Tuple0(%r)" % (self.name,)

    _PLAIN.update(node=Node, anynode=AnyNode, user=UserNode, light=UserLight, weird=Weird, eqhash=EqHash, falsy=Falsy,
                  falsylight=FalsyLight, norepr=NoRepr, container=Container, tuplenode=TupleNode, tuple0=Tuple0, datanode=DataNode)
    return _PLAIN


def default_factory(kind):
    cls = plain_classes()[kind]
    if kind == "anynode":
        return lambda i, name: cls(id=name)
    return lambda i, name: cls(name)


def build(model, factory, how="topdown", names=None):
    """Create real nodes for a Model through the public API.  Returns the list of nodes (index = model index)."""
    names = names or [str(i) for i in range(model.n)]
    nodes = [factory(i, names[i]) for i in range(model.n)]
    if how == "topdown":
        for i in range(model.n):
            if model.par[i] is not None:
                nodes[i].parent = nodes[model.par[i]]
    elif how == "bottomup":
        for i in reversed(range(model.n)):
            if model.ch[i]:
                nodes[i].children = [nodes[c] for c in model.ch[i]]
    else:
        raise core.HarnessError(how)
    return nodes


class IdMap(object):
    """node -> index by identity."""

    def __init__(self, nodes):
        self.d = {id(nd): i for i, nd in enumerate(nodes)}
        self.nodes = nodes

    def __call__(self, obj):
        if obj is None:
            return None
        return self.d.get(id(obj), "?%s" % type(obj).__name__)

    def seq(self, it):
        return [self(x) for x in it]


def read_structure(nodes, idmap):
    """(par, ch) as seen through the public API."""
    return (tuple(idmap(nd.parent) for nd in nodes), tuple(tuple(idmap.seq(nd.children)) for nd in nodes))


def shapes_upto(n, lo=1):
    out = []
    for k in range(lo, n + 1):
        out.extend(plane_trees(k))
    return out


def subsets(items, maxk=None):
    return list(core.powerset(items, maxk))
