"""C16 - notification hooks fire exactly once and in order around each link change
(E1 with hooks that snapshot the whole forest through the public API)."""
from .. import e1run

CFG = {"read": False, "nonnode": True, "extras": True}


def configs(tier):
    out = []
    for kind in ("mixin", "light", "node"):
        cfg = dict(CFG)
        if kind == "node":
            cfg["new"] = ("node",)
        out.append(dict(kind=kind, n=3, cfg=cfg, hidden=False, d=2 if tier == "thorough" else 1, assertions=0, judge="c16", snap=True))
        out.append(dict(kind=kind, n=4, cfg=dict(cfg, extras=tier == "thorough"), hidden=False, d=1,
                        assertions=1 if kind == "light" else 0, judge="c16", snap=True))
    # links are nodes like any other for the hooks (a structural call on a link notifies the link, not its target)
    out.append(dict(kind="symmix", n=4, cfg=dict(CFG, nonnode=False, extras=False, new=("symlink>a",)), hidden=False, d=0, assertions=0,
                    judge="c16", snap=True))
    # user classes with value semantics: what hooks observe must not depend on __eq__ (e.g. list.remove)
    for kind in ("trap:light:eq", "trap:eq"):
        out.append(dict(kind=kind, n=3, cfg=dict(CFG, nonnode=False), hidden=False, d=1, assertions=0, judge="c16", snap=True))
        out.append(dict(kind=kind, n=4, cfg=dict(CFG, nonnode=False, extras=False), hidden=False, d=0, assertions=0, judge="c16", snap=True))
    # falsy / empty-container / tuple node classes: the hooks fire for them like for any node
    for kind in ("trap:light:falsy", "trap:falsy", "trap:light:len0", "trap:tuple0", "trap:tuple2"):
        out.append(dict(kind=kind, n=3, cfg=dict(CFG, nonnode=False), hidden=False, d=0, assertions=0, judge="c16", snap=True))
    # the class of the exception a hook raises is the hook's business: it reaches the caller unchanged (AttributeError,
    # TreeError, ValueError ... subclasses), whatever the library itself raises and catches internally
    for kind, fl in (("mixin", "attr"), ("light", "attr"), ("mixin", "tree"), ("node", "value"), ("light", "loop")):
        out.append(dict(kind=kind, n=3, cfg=dict(CFG, nonnode=False, extras=False), hidden=False, d=1, assertions=0, judge="c16", snap=True, flavour=fl))
    # hooks that detach ANOTHER node themselves (a companion taken along): every hook call, nested or not, still observes what
    # the statement says - in particular no detach hook fires for a node that is already a root
    for kind in ("mixin", "light"):
        out.append(dict(kind=kind, n=3, cfg=dict(CFG, nonnode=False, extras=False), hidden=False, d=0, assertions=0, judge="c16", snap=True,
                        reenter=True, name="%s N=3 hooks that detach a node re-entrantly (monitor law only) A=0" % kind))
    # hooks put on the class only after nodes of it have been linked once
    for kind in ("late", "late:light", "insthook"):
        out.append(dict(kind=kind, n=3, cfg=dict(CFG), hidden=False, d=1, assertions=0, judge="c16", snap=True))
    if tier == "thorough":
        for kind in ("mixin", "light"):
            out.append(dict(kind=kind, n=5, cfg=dict(CFG, extras=False, L=3), hidden=False, d=0, assertions=0,
                            judge="c16", snap=True))
    return out


def run(tier):
    t, summ = e1run.run_configs(configs(tier))
    cov = {
        "states": sum(s["states"] for s in summ),
        "transitions": t.c["transitions"],
        "traces_validated_against_impl": t.c["exact_logs_compared"] + t.c["monitor_runs"],
        "evaluations": t.c["executions"],
        "distinct_nontrivial": t.c["nontrivial"],
        "rule": "every (reachable forest, structural call): exact hook log against the specified sequence for "
                "successful / no-op / cleanly refused calls, monitor law over forest snapshots taken inside every "
                "hook for all runs incl. single hook faults; non-trivial = at least one hook had to fire, or a post "
                "hook of a parent assignment raised",
        "bounds": summ,
    }
    return {
        "tally": t,
        "coverage": cov,
        "guards": ("reentrant_monitor_runs", "exact_logs_compared", "silent_calls", "monitor_runs", "post_hook_faults_on_parent_assignment"),
        "assumptions": ["hooks observe and may raise but do not mutate the tree",
                        "the hook sequence of a children assignment refused with LoopError is not fixed by the statement; "
                        "only the monitor law is applied to it"],
    }
