"""C03 - a refused or hook-vetoed structural change leaves the whole forest untouched
(E1, every refusal and every position of a raising pre hook, once / twice / persistently)."""
from .. import core, e1run

P2 = ("_pre_detach", "_pre_attach")
P4 = ("_pre_detach", "_pre_attach", "_pre_detach_children", "_pre_attach_children")
CFG = {"read": False, "nonnode": True, "extras": True}


def configs(tier, known):
    out = []
    extra = {"known": {k: 1 for k in known}}
    for kind in ("mixin", "light", "node"):
        if tier == "quick":
            out.append(dict(kind=kind, n=3, cfg=dict(CFG, read=True), hidden=True, d=2, persistent=P2, assertions=0,
                            judge="c03", extra=extra, only_pre_first=True))
            if kind != "node":
                out.append(dict(kind=kind, n=4, cfg=dict(CFG, extras=False), hidden=False, d=1, persistent=P2,
                                assertions=1, judge="c03", extra=extra, only_pre_first=True))
        else:
            out.append(dict(kind=kind, n=3, cfg=dict(CFG, read=True), hidden=True, d=3, persistent=P2, assertions=0,
                            judge="c03", extra=extra, only_pre_first=True))
            out.append(dict(kind=kind, n=4, cfg=dict(CFG), hidden=False, d=2, persistent=P2, assertions=1,
                            judge="c03", extra=extra, only_pre_first=True))
            if kind != "node":
                out.append(dict(kind=kind, n=4, cfg=dict(CFG, read=True), hidden=True, d=1, persistent=P2, assertions=0,
                                judge="c03", extra=extra, only_pre_first=True))
                out.append(dict(kind=kind, n=5, cfg=dict(CFG, extras=False, L=3), hidden=False, d=1, persistent=P2,
                                assertions=0, judge="c03", extra=extra, only_pre_first=True))
    for kind, fl in (("mixin", "tree"), ("light", "loop"), ("mixin", "assert"), ("light", "assert"), ("mixin", "stopiter"), ("light", "recursion"),
                     ("mixin", "attr"), ("light", "value")) + (
            (("node", "value"), ("light", "attr"), ("mixin", "loop"), ("light", "tree"), ("light", "key"), ("node", "assert")) if tier == "thorough" else ()):
        out.append(dict(kind=kind, n=3, cfg=dict(CFG, extras=False), hidden=False, d=1 if tier == "quick" else 2, persistent=P2,
                        assertions=0, judge="c03", extra=extra, only_pre_first=True, flavour=fl))
    # histories in which an earlier call was aborted by a hook (state surviving a failed call inside the library)
    for kind in ("mixin",) if tier == "quick" else ("mixin", "light"):
        out.append(dict(kind=kind, n=3, cfg=dict(CFG, extras=False, read=False), hidden=False, d=0, assertions=0, judge="c03", extra=extra,
                        reclimit=120, name="%s N=3 two-step: aborted call (any hook once / persistent pre hook), then any call" % kind,
                        two_step=dict(d1=1, persistent1=P4, d2=0 if tier == "quick" else 1, persistent2=() if tier == "quick" else P2,
                                      only_pre_first2=True, L=2 if tier == "quick" else 3)))
    for kind in ("mixin", "light"):
        out.append(dict(kind=kind, n=3, cfg=dict(CFG, extras=False), hidden=False, d=0, persistent=P4, assertions=0,
                        judge="c03", extra=extra, reclimit=120,
                        name="%s N=3 persistent bracket-hook vetoes (reclimit 120)" % kind))
    return out


def run(tier):
    known = core.load_known_findings("C03")
    t, summ = e1run.run_configs(configs(tier, known))
    cov = {
        "states": sum(s["states"] for s in summ),
        "transitions": t.c["transitions"],
        "traces_validated_against_impl": t.c["refusals"] + t.c["pre_hook_vetoes"],
        "evaluations": t.c["executions"],
        "distinct_nontrivial": t.c["nontrivial"],
        "rule": "every (reachable forest, structural call) and every fault plan whose first raising hook is a pre "
                "hook (each invocation position, plus a second fault anywhere later, plus persistent vetoes); "
                "non-trivial = the call was refused or vetoed (state must equal the state before the call)",
        "bounds": summ,
    }
    return {
        "tally": t,
        "coverage": cov,
        "known": known,
        "guards": ("refusal:TreeError", "refusal:LoopError", "refusal:TypeError", "veto:_pre_detach", "veto:_pre_attach",
                   "veto:_pre_detach_children", "veto:_pre_attach_children", "veto_pos:first", "veto_pos:later",
                   "veto_untouched"),
        "assumptions": ["hooks only raise; bounded universes (N<=4, 5 in thorough), <=2 (3) hook exceptions per call",
                        "known findings are matched by selector AND exact damage (AsIsModel); anything else is a violation"],
    }
