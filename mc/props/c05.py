"""C05 - each iterator visits every node of the subtree exactly once in its defined order
(E2: all plane trees up to a size, every start node, five iterators, four node classes, two build orders)."""
from .. import core, tree

MOD = "mc.props.c05"
KINDS = ("node", "user", "light", "anynode", "weird", "eqhash", "falsy", "falsylight", "container", "tuplenode", "tuple0", "datanode")


def iterators():
    import anytree

    return {
        "pre": anytree.PreOrderIter,
        "post": anytree.PostOrderIter,
        "level": anytree.LevelOrderIter,
        "groups": anytree.LevelOrderGroupIter,
        "zigzag": anytree.ZigZagGroupIter,
    }


def check_shape(t, shape, kinds=KINDS, hows=("topdown", "bottomup")):
    m = tree.Model.from_shape(shape)
    its = iterators()
    for kind in kinds:
        for how in hows:
            nodes = tree.build(m, tree.default_factory(kind), how)
            idm = tree.IdMap(nodes)
            before = tree.read_structure(nodes, idm)
            if before != m.snapshot():
                t.violation("C05: tree built through the API has the wrong structure",
                            case(shape, kind, how, None, None, m.snapshot(), before))
                continue
            t.c["trees"] += 1
            for start in range(m.n):
                t.c["states"] += 1
                exp = {"pre": m.pre(start), "post": m.post(start), "level": m.level(start),
                       "groups": m.groups(start), "zigzag": m.zigzag(start)}
                sub = sorted(m.pre(start))
                for name, cls in its.items():
                    got = list(cls(nodes[start]))
                    if name in ("groups", "zigzag"):
                        ok_type = all(isinstance(g, tuple) for g in got)
                        got = [idm.seq(g) for g in got]
                        flat = [v for g in got for v in g]
                    else:
                        ok_type = True
                        got = idm.seq(got)
                        flat = got
                    t.c["evaluations"] += 1
                    t.obs((shape, kind, how, start, name, got))
                    why = None
                    if got != exp[name]:
                        why = "%s order differs from its definition" % name
                    elif sorted(flat, key=str) != sub and sorted(map(str, flat)) != sorted(map(str, sub)):
                        why = "%s does not yield every node of the subtree exactly once" % name
                    elif not ok_type:
                        why = "%s must yield tuples" % name
                    if why:
                        t.violation("C05: " + why, case(shape, kind, how, start, name, exp[name], got))
                    if m.size(start) > 1:
                        t.c["nontrivial"] += 1
                    if len(exp["groups"]) >= 3 and max(len(g) for g in exp["groups"][1:]) >= 2:
                        t.c["zigzag_reversal_visible"] += 1
                # iterator objects: an exhausted iterator stays exhausted; two iterator objects over the same start
                # node do not disturb each other; a partially consumed one continues where it was
                for name, cls in its.items():
                    it = cls(nodes[start])
                    first = list(it)
                    again = list(it)
                    t.c["iterator_reuse_checks"] += 1
                    it1, it2 = cls(nodes[start]), cls(nodes[start])
                    inter = []
                    for x in it1:
                        inter.append(x)
                        next(it2, None)
                        break
                    rest = list(it1)
                    why = None
                    if again:
                        why = "%s: an exhausted iterator yields nodes again" % name
                    elif _ids(inter + rest, idm) != _ids(first, idm):
                        why = "%s: two interleaved iterators over the same start node disturb each other" % name
                    if why is None and how == "topdown":
                        # a not-yet-started iterator kept as a template: its copies traverse independently of each other
                        import copy

                        tmpl = cls(nodes[start])
                        c1, c2 = copy.copy(tmpl), copy.copy(tmpl)
                        seqs = [_ids(list(c1), idm), _ids(list(c2), idm), _ids(list(tmpl), idm)]
                        t.c["iterator_reuse_checks"] += 1
                        if any(x != exp[name] for x in seqs):
                            why = "%s: copies (copy.copy) of a not-yet-started iterator do not traverse independently" % name
                    if why:
                        t.violation("C05: " + why, case(shape, kind, how, start, name, exp[name], "re-use"))
                        continue
                    # iterator objects of the same class over DIFFERENT start nodes: one abandoned after k items (every k)
                    # before the other is created; two live ones advanced alternately to the end
                    others = sorted({0, m.n - 1, m.par[start] if m.par[start] is not None else start} - {start})
                    for other in others if (m.n <= 7 and how == "topdown") else ():
                        exp_o = {"pre": m.pre, "post": m.post, "level": m.level, "groups": m.groups, "zigzag": m.zigzag}[name](other)
                        for k in range(1, len(exp_o)):
                            it0 = cls(nodes[other])
                            for _ in range(k):
                                next(it0)
                            got = _ids(list(cls(nodes[start])), idm)
                            t.c["iterator_reuse_checks"] += 1
                            if got != exp[name]:
                                why = "%s: a new iterator is disturbed by an earlier iterator object (start node %d) abandoned after %d items" % (name, other, k)
                                break
                            del it0
                        if why is None:
                            a, b = cls(nodes[start]), cls(nodes[other])
                            ga, gb = [], []
                            while True:
                                x, y = next(a, _END), next(b, _END)
                                if x is _END and y is _END:
                                    break
                                if x is not _END:
                                    ga.append(x)
                                if y is not _END:
                                    gb.append(y)
                            t.c["iterator_reuse_checks"] += 1
                            if _ids(ga, idm) != exp[name] or _ids(gb, idm) != exp_o:
                                why = "%s: two live iterators over the start nodes %d and %d, advanced alternately, disturb each other" % (name, start, other)
                                got = [_ids(ga, idm), _ids(gb, idm)]
                        if why:
                            t.violation("C05: " + why, case(shape, kind, how, start, name, exp[name], got))
                            break
                after = tree.read_structure(nodes, idm)
                if after != before:
                    t.violation("C05: iterating modified the tree", case(shape, kind, how, start, "*", before, after))
    t.sample({"shape": shape, "pre": m.pre(0), "post": m.post(0), "groups": m.groups(0)}, cap=2)


_END = object()


def _ids(seq, idm):
    return [idm.seq(x) if type(x) is tuple else idm(x) for x in seq]


def case(shape, kind, how, start, name, exp, got):
    return {"engine": "E2", "module": MOD, "shape": shape, "kind": kind, "how": how, "start": start,
            "iterator": name, "expected": exp, "observed": got}


def job_deep():
    """Degenerate but legal shapes: chains.  The pinned iterators spend at most one frame per level (PreOrderIter,
    PostOrderIter) or none (the level-order family), so under the default recursion limit (1000) chains of height
    900 resp. 3000 must work; a rewrite that doubles the frames per level halves the usable height."""
    import sys

    t = core.Tally()

    def run():
        its = iterators()
        sys.setrecursionlimit(1000)
        for height, names in ((900, ("pre", "post")), (3000, ("level", "groups", "zigzag"))):
            n = height + 1
            m = tree.Model([None] + list(range(n - 1)), [[i + 1] for i in range(n - 1)] + [[]])
            for kind in ("user", "light"):
                nodes = tree.build(m, tree.default_factory(kind), "topdown")
                idm = tree.IdMap(nodes)
                for name in names:
                    for start in (0, n // 2):
                        got = list(its[name](nodes[start]))
                        got = [idm.seq(g) for g in got] if name in ("groups", "zigzag") else idm.seq(got)
                        order = list(range(start, n))
                        exp = {"pre": order, "post": order[::-1], "level": order, "groups": [[v] for v in order], "zigzag": [[v] for v in order]}[name]
                        t.c["evaluations"] += 1
                        t.c["deep_chain_iterations"] += 1
                        if got != exp:
                            t.violation("C05: %s on a chain of height %d differs from its definition" % (name, height),
                                        {"engine": "E2", "module": MOD, "part": "deep", "kind": kind, "height": height, "iterator": name})
                for nd in nodes:
                    nd.parent = None
        # deep AND branching (added after wave 10): a spine of height 300 where every spine node has the children
        # (leaf, next spine node, inner node with one leaf) - an order that is only right near the start node, or only
        # on chains, shows here; all five iterators, from the root, from the middle and from near the bottom
        spine = 300
        par, ch = [None], [[]]
        cur = 0
        for _k in range(spine):
            ids = list(range(len(par), len(par) + 4))     # leaf, next spine, inner, leaf below inner
            par += [cur, cur, cur, ids[2]]
            ch += [[], [], [ids[3]], []]
            ch[cur] = ids[:3]
            cur = ids[1]
        m = tree.Model(par, ch)
        for kind in ("user", "light"):
            nodes = tree.build(m, tree.default_factory(kind), "topdown")
            idm = tree.IdMap(nodes)
            for start in (0, 2 + 4 * (spine // 2 - 1), 2 + 4 * (spine - 3)):
                for name in its:
                    got = list(its[name](nodes[start]))
                    got = [idm.seq(g) for g in got] if name in ("groups", "zigzag") else idm.seq(got)
                    exp = getattr(m, name)(start)
                    t.c["evaluations"] += 1
                    t.c["deep_chain_iterations"] += 1
                    if got != exp:
                        t.violation("C05: %s on a branching tree of height %d (start at depth %d) differs from its definition" % (name, spine, m.depth(start)),
                                    {"engine": "E2", "module": MOD, "part": "deep", "kind": kind, "height": spine, "iterator": name, "shape": "caterpillar"})
            for nd in nodes:
                nd.parent = None
        # one very wide node: the iterators must not spend stack frames (or quadratic time) per sibling
        width = 5000
        m = tree.Model([None] + [0] * width, [list(range(1, width + 1))] + [[] for _ in range(width)])
        for kind in ("user", "light"):
            nodes = tree.build(m, tree.default_factory(kind), "bottomup")
            idm = tree.IdMap(nodes)
            kids = list(range(1, width + 1))
            for name in its:
                for start in (0, width):
                    got = list(its[name](nodes[start]))
                    got = [idm.seq(g) for g in got] if name in ("groups", "zigzag") else idm.seq(got)
                    if start:
                        exp = [[start]] if name in ("groups", "zigzag") else [start]
                    else:
                        exp = {"pre": [0] + kids, "post": kids + [0], "level": [0] + kids, "groups": [[0], kids], "zigzag": [[0], kids[::-1]]}[name]
                    t.c["evaluations"] += 1
                    t.c["deep_chain_iterations"] += 1
                    if got != exp:
                        t.violation("C05: %s on a node with %d children differs from its definition" % (name, width),
                                    {"engine": "E2", "module": MOD, "part": "deep", "kind": kind, "width": width, "iterator": name})

    core.guard(t, "C05", {"engine": "E2", "module": MOD, "part": "deep"}, run, _limit=60)
    return t


def job(shapes):
    t = core.Tally()
    for s in shapes:
        core.guard(t, "C05", {"engine": "E2", "module": MOD, "shape": s, "kind": KINDS[0], "how": "topdown"}, check_shape, t, s)
    return t


def _tup(x):
    return tuple(_tup(i) for i in x) if isinstance(x, list) else x


def replay(c):
    if c.get("part") == "deep":
        return [v["why"] for v in job_deep().violations]
    t = core.Tally()
    check_shape(t, _tup(c["shape"]), kinds=(c["kind"],), hows=(c["how"],))
    return [v["why"] for v in t.violations]


def run(tier):
    nmax = 8 if tier == "quick" else 11
    shapes = tree.shapes_upto(nmax)
    t = core.Tally()
    jobs = [(MOD, "job", {"shapes": c}) for c in core.chunks(shapes[::-1], core.NPROC * 6)]
    core.run_pool(jobs + [(MOD, "job_deep", {}), ("mc.positional", "job", {"pid": "C05"})], 0, into=t)
    core.run_pool([(MOD, "job", {"shapes": c}) for c in core.chunks(tree.shapes_upto(min(nmax, 6)), core.NPROC)], 1, into=t)
    cov = {
        "states": t.c["states"],
        "transitions": t.c["evaluations"],
        "traces_validated_against_impl": t.c["evaluations"],
        "evaluations": t.c["evaluations"],
        "distinct_nontrivial": t.c["nontrivial"],
        "rule": "all ordered trees with 1..%d nodes (%d shapes) x 9 node classes (plain ones and adversarial __eq__/__hash__/__bool__/__len__ ones); exhausted / interleaved iterator objects x 2 build orders x every start node x "
                "5 iterators against orders computed from the definitions on an index model; state = (tree, start), "
                "transition = one complete iteration; non-trivial = subtree with more than one node" % (nmax, len(shapes)),
        "bounds": {"max_nodes": nmax, "shapes": len(shapes), "assertions_on_upto": min(nmax, 6)},
    }
    return {"tally": t, "coverage": cov, "guards": ("positional_calls", "trees", "nontrivial", "zigzag_reversal_visible", "iterator_reuse_checks", "deep_chain_iterations"),
            "assumptions": ["trees up to %d nodes; every loop of the iterators is over children lists or levels, all "
                            "branch combinations occur at depth<=4 and <=3 siblings" % nmax]}
