"""C04 - navigation attributes and sibling/ancestor helpers equal their definitions
(E2: all shapes x every node / pair / triple;  E1: every reachable forest, queried before and after every
mutation and after every second mutation on the same live objects, so stale caches cannot hide)."""
import itertools

from .. import core, forest, tree

MOD = "mc.props.c04"


def query_all(nodes, idm, m, triples=True):
    """Evaluate every C04 attribute/helper on the real nodes; return list of (what, expected, observed) mismatches
    and the number of values compared.  Expected values come from the index model m (definitions)."""
    from anytree import util

    bad = []
    cnt = 0

    def cmp(what, exp, got):
        nonlocal cnt
        cnt += 1
        if exp != got:
            bad.append((what, exp, got))

    for i, nd in enumerate(nodes):
        cmp("path(%d)" % i, m.path(i), idm.seq(nd.path))
        cmp("ancestors(%d)" % i, m.ancestors(i), idm.seq(nd.ancestors))
        cmp("root(%d)" % i, m.root(i), idm(nd.root))
        cmp("depth(%d)" % i, m.depth(i), nd.depth)
        cmp("is_root(%d)" % i, m.par[i] is None, nd.is_root)
        cmp("is_leaf(%d)" % i, not m.ch[i], nd.is_leaf)
        cmp("siblings(%d)" % i, m.siblings(i), idm.seq(nd.siblings))
        cmp("descendants(%d)" % i, m.descendants(i), idm.seq(nd.descendants))
        cmp("leaves(%d)" % i, m.leaves(i), idm.seq(nd.leaves))
        cmp("size(%d)" % i, m.size(i), nd.size)
        cmp("height(%d)" % i, m.height(i), nd.height)
        cmp("leftsibling(%d)" % i, m.leftsibling(i), idm(util.leftsibling(nd)))
        cmp("rightsibling(%d)" % i, m.rightsibling(i), idm(util.rightsibling(nd)))
        cmp("commonancestors(%d)" % i, m.commonancestors(i), idm.seq(util.commonancestors(nd)))
        for tp, val in (("path", nd.path), ("ancestors", nd.ancestors), ("siblings", nd.siblings),
                        ("descendants", nd.descendants), ("leaves", nd.leaves)):
            if not isinstance(val, tuple):
                bad.append(("type of %s(%d)" % (tp, i), "tuple", type(val).__name__))
    cmp("commonancestors()", [], idm.seq(util.commonancestors()))
    rng = range(len(nodes))
    for i, j in itertools.product(rng, rng):
        cmp("commonancestors(%d,%d)" % (i, j), m.commonancestors(i, j), idm.seq(util.commonancestors(nodes[i], nodes[j])))
    if triples:
        for i, j, k in itertools.product(rng, rng, rng):
            cmp("commonancestors(%d,%d,%d)" % (i, j, k), m.commonancestors(i, j, k),
                idm.seq(util.commonancestors(nodes[i], nodes[j], nodes[k])))
    return bad, cnt


def query_node(nodes, idm, m, i):
    """The attributes/helpers of ONE node (used after partially primed histories, so that querying other
    nodes cannot repair a stale cache before it is observed)."""
    from anytree import util

    nd = nodes[i]
    bad = []
    for what, exp, got in (
        ("path(%d)" % i, m.path(i), lambda: idm.seq(nd.path)),
        ("ancestors(%d)" % i, m.ancestors(i), lambda: idm.seq(nd.ancestors)),
        ("root(%d)" % i, m.root(i), lambda: idm(nd.root)),
        ("depth(%d)" % i, m.depth(i), lambda: nd.depth),
        ("siblings(%d)" % i, m.siblings(i), lambda: idm.seq(nd.siblings)),
        ("descendants(%d)" % i, m.descendants(i), lambda: idm.seq(nd.descendants)),
        ("leaves(%d)" % i, m.leaves(i), lambda: idm.seq(nd.leaves)),
        ("size(%d)" % i, m.size(i), lambda: nd.size),
        ("height(%d)" % i, m.height(i), lambda: nd.height),
        ("is_root(%d)" % i, m.par[i] is None, lambda: nd.is_root),
        ("is_leaf(%d)" % i, not m.ch[i], lambda: nd.is_leaf),
        ("leftsibling(%d)" % i, m.leftsibling(i), lambda: idm(util.leftsibling(nd))),
        ("rightsibling(%d)" % i, m.rightsibling(i), lambda: idm(util.rightsibling(nd))),
        ("commonancestors(%d,%d)" % (i, i), m.commonancestors(i, i), lambda: idm.seq(util.commonancestors(nd, nd))),
    ):
        g = got()
        if g != exp:
            bad.append((what, exp, g))
    return bad, 14


def prime(nd):
    """Ask one node for everything (fills whatever caches an implementation might keep)."""
    nd.path, nd.ancestors, nd.root, nd.depth, nd.siblings, nd.descendants, nd.leaves, nd.size, nd.height
    nd.is_root, nd.is_leaf
    repr(nd)


def run_primed(t, kind, n, witness, primed, ops, y):
    """rebuild; query only the primed nodes; apply ops; then query node y alone and compare with the definitions
    over the current public links."""
    u = forest.rebuild(kind, n, witness)
    u.arm()
    for lbl in primed:
        prime(u.nodes[lbl])
    for op in ops:
        if op and op[0] == "fault":
            u.arm(op[2], op[3])
            op = op[1]
            t.c["faulted_ops_in_histories"] += 1
        try:
            u.apply(op)
        except Exception:  # noqa
            t.c["refused_ops"] += 1
        u.raise_at = frozenset()
        u.persist = None
    nodes = [u.nodes[l] for l in u.labels]
    idm = tree.IdMap(nodes)
    # the model is read AFTER the isolated query: reading .parent/.children of all nodes first must not matter
    # for correct code, but it could repair a stale cache in a broken one
    yi = u.labels.index(y)
    raw = _raw_node(nodes, idm, yi)
    m = tree.Model.from_state(u.state(), u.labels)
    bad = _cmp_raw(raw, m, yi)
    t.c["evaluations"] += 14
    t.c["primed_histories"] += 1
    if primed and ops:
        t.c["nontrivial"] += 1
    for what, exp, got in bad[:2]:
        t.violation("C04: %s is stale/wrong after a partially queried history" % what,
                    {"engine": "E2", "module": MOD, "part": "primed", "kind": kind, "n": n, "witness": [list(w) for w in witness],
                     "primed": list(primed), "history": [list(o) for o in ops], "query_node": y, "query": what,
                     "expected": exp, "observed": got})


def _raw_node(nodes, idm, i):
    from anytree import util

    nd = nodes[i]
    return {
        "path": idm.seq(nd.path), "ancestors": idm.seq(nd.ancestors), "root": idm(nd.root), "depth": nd.depth,
        "siblings": idm.seq(nd.siblings), "descendants": idm.seq(nd.descendants), "leaves": idm.seq(nd.leaves),
        "size": nd.size, "height": nd.height, "is_root": nd.is_root, "is_leaf": nd.is_leaf,
        "leftsibling": idm(util.leftsibling(nd)), "rightsibling": idm(util.rightsibling(nd)),
        "commonancestors": idm.seq(util.commonancestors(nd, nd)),
    }


def _cmp_raw(raw, m, i):
    exp = {
        "path": m.path(i), "ancestors": m.ancestors(i), "root": m.root(i), "depth": m.depth(i), "siblings": m.siblings(i),
        "descendants": m.descendants(i), "leaves": m.leaves(i), "size": m.size(i), "height": m.height(i),
        "is_root": m.par[i] is None, "is_leaf": not m.ch[i], "leftsibling": m.leftsibling(i),
        "rightsibling": m.rightsibling(i), "commonancestors": m.commonancestors(i, i),
    }
    return [("%s(%d)" % (k, i), exp[k], raw[k]) for k in exp if exp[k] != raw[k]]


_HC = {}


def hook_count(kind, n, witness, op):
    key = (kind, witness, op)
    if key not in _HC:
        u = forest.rebuild(kind, n, witness)
        u.arm()
        try:
            u.apply(op)
        except Exception:  # noqa
            pass
        _HC[key] = len(u.log)
    return _HC[key]


def job_primed(kind, n, states, depth2, faults=True):
    t = core.Tally()
    labels = list(forest.LABELS[:n])
    ops = _ops2(n)
    for key, state, witness in states:
        t.c["states"] += 1
        for primed in core.powerset(labels):
            for op1 in ops:
                seqs = [(op1,)]
                if depth2:
                    seqs += [(op1, op2) for op2 in ops if op2[0] == "setp"]
                if faults and primed and (n <= 3 or len(primed) in (1, n)):
                    # the same call aborted by a hook at every position ("values are correct immediately after any
                    # mutation" - also after one that a post hook interrupted)
                    for i in range(hook_count(kind, n, witness, op1)):
                        seqs.append((("fault", op1, (i,), None),))
                for seq in seqs:
                    t.c["transitions"] += 1
                    for y in labels:
                        core.guard(t, "C04", {"engine": "E2", "module": MOD, "part": "primed", "kind": kind, "n": n,
                                              "witness": [list(w) for w in witness], "primed": list(primed),
                                              "history": [list(o) for o in seq], "query_node": y},
                                   run_primed, t, kind, n, witness, primed, seq, y, _limit=10)
        t.obs((kind, key, "primed", t.c["evaluations"]))
    return t


def job_deep():
    """Chains: parent-walking attributes are iterative in the pinned code (any height), the subtree ones spend one frame
    per level, height two - under the default recursion limit chains of 3000 / 900 / 450 levels must work."""
    import sys
    from anytree import util

    t = core.Tally()

    def run():
        sys.setrecursionlimit(1000)
        for height, group in ((3000, "up"), (900, "down"), (450, "height")):
            n = height + 1
            m = tree.Model([None] + list(range(n - 1)), [[i + 1] for i in range(n - 1)] + [[]])
            for kind in ("user", "light"):
                nodes = tree.build(m, tree.default_factory(kind), "topdown")
                idm = tree.IdMap(nodes)
                bad = []
                if group == "up":
                    for i in (n - 1, n // 2):
                        nd = nodes[i]
                        bad += [w for w, e, g in (("path", list(range(i + 1)), idm.seq(nd.path)), ("ancestors", list(range(i)), idm.seq(nd.ancestors)),
                                                  ("root", 0, idm(nd.root)), ("depth", i, nd.depth), ("siblings", [], idm.seq(nd.siblings)),
                                                  ("commonancestors", list(range(n // 2)), idm.seq(util.commonancestors(nd, nodes[n // 2]))),
                                                  ("is_root", False, nd.is_root)) if e != g]
                elif group == "down":
                    for i in (0, n // 2):
                        nd = nodes[i]
                        bad += [w for w, e, g in (("descendants", list(range(i + 1, n)), idm.seq(nd.descendants)), ("leaves", [n - 1], idm.seq(nd.leaves)),
                                                  ("size", n - i, nd.size)) if e != g]
                else:
                    bad += [w for w, e, g in (("height", height, nodes[0].height), ("height", 0, nodes[n - 1].height)) if e != g]
                t.c["evaluations"] += 1
                t.c["deep_chain_queries"] += 1
                for w in bad[:2]:
                    t.violation("C04: %s on a chain of height %d differs from its definition" % (w, height),
                                {"engine": "E2", "module": MOD, "part": "deep", "kind": kind, "height": height, "query": w})
                for nd in nodes:
                    nd.parent = None

    def wide():
        # a very wide node: positions beyond anything a small tree has (e.g. beyond CPython's shared small ints)
        n = 601
        m = tree.Model([None] + [0] * 300 + [1] * 300, [list(range(1, 301)), list(range(301, 601))] + [[] for _ in range(599)])
        for kind in ("user", "light"):
            nodes = tree.build(m, tree.default_factory(kind), "topdown")
            idm = tree.IdMap(nodes)
            bad = []
            for i in (1, 2, 150, 257, 258, 299, 300, 301, 558, 559, 600):
                nd = nodes[i]
                bad += [w for w, e, g in (("siblings(%d)" % i, m.siblings(i), idm.seq(nd.siblings)),
                                          ("leftsibling(%d)" % i, m.leftsibling(i), idm(util.leftsibling(nd))),
                                          ("rightsibling(%d)" % i, m.rightsibling(i), idm(util.rightsibling(nd))),
                                          ("path(%d)" % i, m.path(i), idm.seq(nd.path))) if e != g]
            bad += [w for w, e, g in (("descendants(0)", m.descendants(0), idm.seq(nodes[0].descendants)), ("leaves(1)", m.leaves(1), idm.seq(nodes[1].leaves)),
                                      ("size(0)", 601, nodes[0].size), ("height(0)", 2, nodes[0].height)) if e != g]
            t.c["evaluations"] += 1
            t.c["deep_chain_queries"] += 1
            for w in bad[:2]:
                t.violation("C04: %s on a node with 300 children differs from its definition" % w,
                            {"engine": "E2", "module": MOD, "part": "deep", "kind": kind, "query": w})

    core.guard(t, "C04", {"engine": "E2", "module": MOD, "part": "deep"}, run, _limit=90)
    core.guard(t, "C04", {"engine": "E2", "module": MOD, "part": "deep"}, wide, _limit=90)
    return t


# ---- E2 part -----------------------------------------------------------------------------------


def check_shape(t, shape, kinds, triples):
    m = tree.Model.from_shape(shape)
    for kind in kinds:
        for how in ("topdown", "bottomup"):
            nodes = tree.build(m, tree.default_factory(kind), how)
            idm = tree.IdMap(nodes)
            bad, cnt = query_all(nodes, idm, m, triples)
            t.c["states"] += 1
            t.c["evaluations"] += cnt
            t.c["nontrivial"] += 1 if m.n > 1 else 0
            t.obs((shape, kind, how, cnt, len(bad)))
            for what, exp, got in bad[:3]:
                t.violation("C04: %s differs from its definition" % what,
                            {"engine": "E2", "module": MOD, "part": "shape", "shape": shape, "kind": kind, "how": how,
                             "query": what, "expected": exp, "observed": got})
    # trees that come out of an importer: every attribute of the original has been read (query_all above), the tree is
    # exported with a level limit and imported again - the imported nodes answer from THEIR links
    if m.n > 1:
        from anytree.exporter import DictExporter
        from anytree.importer import DictImporter

        for kind in ("node", "anynode"):
            if kind not in kinds:
                continue
            nodes = tree.build(m, tree.default_factory(kind), "topdown")
            query_all(nodes, tree.IdMap(nodes), m, False)
            for ml in range(1, m.height(0) + 2):
                root = DictImporter(nodecls=type(nodes[0])).import_(DictExporter(maxlevel=ml).export(nodes[0]))
                keep = [v for v in range(m.n) if m.depth(v) < ml]
                new_ix = {v: k for k, v in enumerate(keep)}
                m2 = tree.Model([None if m.par[v] is None else new_ix[m.par[v]] for v in keep],
                                [[new_ix[c] for c in m.ch[v] if c in new_ix] for v in keep])
                nodes2 = []

                def collect(nd):
                    nodes2.append(nd)
                    for c in nd.children:
                        collect(c)
                collect(root)
                t.c["states"] += 1
                t.c["imported_trees"] += 1
                if len(nodes2) != m2.n:
                    bad, cnt = [("number of imported nodes", m2.n, len(nodes2))], 1
                else:
                    bad, cnt = query_all(nodes2, tree.IdMap(nodes2), m2, False)
                t.c["evaluations"] += cnt
                for what, exp, got in bad[:3]:
                    t.violation("C04: %s of a tree imported from a level-limited export differs from its definition" % what,
                                {"engine": "E2", "module": MOD, "part": "shape", "shape": shape, "kind": kind, "how": "imported, maxlevel=%d" % ml,
                                 "query": what, "expected": exp, "observed": got})
    t.sample({"shape": shape, "queries": "all attributes of every node, commonancestors of all pairs%s" % (" and triples" if triples else "")}, cap=1)


def job_shapes(shapes, kinds, triples):
    t = core.Tally()
    for s in shapes:
        core.guard(t, "C04", {"engine": "E2", "module": MOD, "part": "shape", "shape": s, "kind": kinds[0]}, check_shape, t, s, kinds, triples)
    return t


# ---- E1 part: query - mutate - query - mutate - query on the same live objects ----------------------


def _ops1(n):
    cfg = {"read": False, "nonnode": False, "extras": False, "L": 2}
    return forest.ops_for(n, cfg)


def _ops2(n):
    labels = list(forest.LABELS[:n])
    return [("setp", x, p) for x in labels for p in [None] + labels] + [("delc", x) for x in labels]


def _query_universe(t, u, kind, witness, history, step):
    st = u.state()
    m = tree.Model.from_state(st, u.labels)
    nodes = [u.nodes[l] for l in u.labels]
    idm = tree.IdMap(nodes)
    bad, cnt = query_all(nodes, idm, m, triples=len(nodes) <= 3)
    t.c["evaluations"] += cnt
    t.c["query_rounds"] += 1
    for what, exp, got in bad[:2]:
        t.violation("C04: %s is wrong %s" % (what, step),
                    {"engine": "E2", "module": MOD, "part": "history", "kind": kind, "n": len(nodes), "witness": [list(w) for w in witness],
                     "history": [list(h) for h in history], "query": what, "expected": exp, "observed": got,
                     "forest": forest.fmt_state(st, u.labels)})
    return st


def run_history(t, kind, n, witness, history):
    """rebuild; query; then for each op of history: apply, query."""
    u = forest.rebuild(kind, n, witness)
    u.arm()
    st = _query_universe(t, u, kind, witness, (), "before any mutation")
    for k, op in enumerate(history):
        try:
            u.apply(op)
        except Exception:  # noqa - refused calls are part of histories too
            t.c["refused_ops"] += 1
        st2 = _query_universe(t, u, kind, witness, history[: k + 1], "immediately after mutation #%d" % (k + 1))
        if st2 != st:
            t.c["nontrivial"] += 1
        st = st2


def job_states(kind, n, states, depth2):
    t = core.Tally()
    ops1 = _ops1(n)
    ops2 = _ops2(n)
    for key, state, witness in states:
        t.c["states"] += 1
        for op1 in ops1:
            t.c["transitions"] += 1
            core.guard(t, "C04", {"engine": "E2", "module": MOD, "part": "history", "kind": kind, "n": n,
                                  "witness": [list(w) for w in witness], "history": [list(op1)]}, run_history, t, kind, n, witness, (op1,), _limit=10)
            if depth2 and op1[0] != "setc":
                for op2 in ops2:
                    t.c["transitions"] += 1
                    core.guard(t, "C04", {"engine": "E2", "module": MOD, "part": "history", "kind": kind, "n": n,
                                          "witness": [list(w) for w in witness], "history": [list(op1), list(op2)]},
                               run_history, t, kind, n, witness, (op1, op2), _limit=10)
        t.obs((kind, key, t.c["evaluations"]))
    if states:
        t.sample({"kind": kind, "witness": [list(w) for w in states[-1][2]], "then": "query all; op1; query all; op2; query all"}, cap=1)
    return t


def _tup(x):
    return tuple(_tup(i) for i in x) if isinstance(x, list) else x


def replay(c):
    t = core.Tally()
    if c["part"] == "deep":
        return [v["why"] for v in job_deep().violations]
    if c["part"] == "shape":
        check_shape(t, _tup(c["shape"]), (c["kind"],), True)
    elif c["part"] == "primed":
        run_primed(t, c["kind"], c["n"], _tup(c["witness"]), tuple(c["primed"]), _tup(c["history"]), c["query_node"])
    else:
        run_history(t, c["kind"], c["n"], _tup(c["witness"]), _tup(c["history"]))
    return [v["why"] for v in t.violations]


def run(tier):
    t = core.Tally()
    nmax = 7 if tier == "quick" else 8
    bounds = []
    pool = core.Pool(0)
    try:
        pool.run([(MOD, "job_deep", {})], into=t)
        for lo, hi, triples in ((1, 5, True), (6, nmax, False)):
            shapes = tree.shapes_upto(hi, lo)
            kinds = ("node", "user", "light", "anynode", "weird", "container", "falsylight", "tuplenode", "tuple0", "datanode")
            pool.run([(MOD, "job_shapes", {"shapes": c, "kinds": kinds, "triples": triples})
                      for c in core.chunks(shapes[::-1], core.NPROC * 4)], into=t)
            bounds.append({"part": "shapes", "nodes": [lo, hi], "shapes": len(shapes), "classes": kinds, "triples": triples})
        shape_states = t.c["states"]
        plan = [("mixin", 3, True), ("light", 3, True), ("node", 3, True), ("mixin", 4, tier == "thorough"), ("light", 4, tier == "thorough"),
                ("symmix", 4, False)]
        if tier == "thorough":
            plan.append(("mixin", 5, False))
        for kind, n, depth2 in plan:
            cfg = {"read": False, "nonnode": False, "extras": False, "L": 3 if n == 5 else n}
            states = forest.discover(pool, kind, n, cfg, False)
            before = t.c["transitions"]
            pool.run([(MOD, "job_states", {"kind": kind, "n": n, "states": s, "depth2": depth2})
                      for s in core.shard(states, core.NPROC * 4)], into=t)
            bounds.append({"part": "histories", "class": kind, "N": n, "forest_states": len(states),
                           "histories": t.c["transitions"] - before, "depth": 2 if depth2 else 1})
            if n <= 4:
                before = t.c["primed_histories"]
                d2 = depth2 and n == 3
                pool.run([(MOD, "job_primed", {"kind": kind, "n": n, "states": s_, "depth2": d2})
                          for s_ in core.shard(states, core.NPROC * 4)], into=t)
                bounds.append({"part": "partially primed histories", "class": kind, "N": n, "forest_states": len(states),
                               "histories": t.c["primed_histories"] - before, "depth": 2 if d2 else 1,
                               "primed_subsets": "all %d" % (2 ** n), "isolated_query_node": "each"})
    finally:
        pool.close()
    cov = {
        "states": t.c["states"],
        "transitions": t.c["transitions"] + shape_states,
        "traces_validated_against_impl": t.c["query_rounds"] + shape_states,
        "evaluations": t.c["evaluations"],
        "distinct_nontrivial": t.c["nontrivial"],
        "rule": "(a) every ordered tree up to %d nodes x 5 classes x 2 build orders: every attribute of every node, "
                "commonancestors of all pairs (triples up to 5 nodes); (b) every reachable forest of 3-4(5) labelled "
                "nodes: query everything, mutate, query, mutate, query on the same live objects, and - so that queries cannot "
                "repair stale caches - every subset of nodes queried first, then 1-2 mutations, then ONE node queried in "
                "isolation; expected values "
                "recomputed from the definitions over the current public parent/children links; evaluations = single "
                "values compared; non-trivial = multi-node tree / a mutation that changed the forest" % nmax,
        "bounds": bounds,
    }
    return {"tally": t, "coverage": cov, "guards": ("imported_trees", "nontrivial", "query_rounds", "refused_ops", "primed_histories", "faulted_ops_in_histories", "deep_chain_queries"),
            "assumptions": ["bounded tree sizes and history depth 2 after any reachable forest"]}
