"""C20 - a symlink node has its own tree position and forwards the rest to its target
(E1 on universes mixing ordinary nodes, links, links to links and links into other trees with the C01-C03 oracles
 and target independence;  attribute part: all interleavings of attribute writes, structural calls and reads)."""
import itertools

from .. import core, e1run, forest

MOD = "mc.props.c20"
P2 = ("_pre_detach", "_pre_attach")
CFG = {"read": False, "nonnode": True, "extras": True}
NAMES = ("foo", "bar", "name", "__tag__", "godparent", "target_id")   # a dunder-named instance attribute is an attribute like any other; so is a name that merely contains one of the link's own names (after wave 10)
MISSING = "<AttributeError>"


def judge(t, ex, witness, extra):
    sub = core.Tally()
    e1run.judge_c01(sub, ex, witness, extra)
    e1run.judge_c02(sub, ex, witness, extra)
    e1run.judge_c03(sub, ex, witness, extra)
    # targets outside the universe must never be touched by structural calls on the link
    for tg in ex.u.keep:
        if hasattr(tg, "children") and type(tg).__name__ == "HNode":
            if tg.parent is not None or len(tg.children) != 0:
                sub.violation("structural call on a link changed its target's position or children",
                              forest.case_of(ex, witness))
    for v in sub.violations:
        c = dict(v["case"])
        c["judge"] = "c20"
        t.violation("C20: symlink universe violates " + v["why"], c)
    t.c.update({k: v for k, v in sub.c.items() if k != "violations"})
    t.known.update(sub.known)
    for k, v in sub.known_examples.items():
        t.known_examples.setdefault(k, v)


JUDGE = judge

# ---------------------------------------------------------------------------------------------
# attribute part


def events(labels):
    ev = []
    for obj in ("c", "d", "a"):          # write through link c -> a, through link d -> c -> a, and on the target itself
        for name in NAMES:
            ev.append(("write", obj, name))
    ev.append(("write_equal", "d", "foo"))   # assign an equal but distinct object over the current value (through link-to-link)
    ev.append(("write_equal", "a", "foo"))
    ev.append(("write_none", "c", "bar"))    # None is a value like any other (not "missing")
    ev.append(("write_none", "a", "foo"))
    ev.append(("write", "b", "foo"))     # an unrelated node
    ev.append(("write", "e", "bar"))     # a link into another tree (e -> b)
    for op in (("setp", "c", "b"), ("setp", "a", "c"), ("setp", "d", "a"), ("setp", "c", None), ("delc", "c"),
               ("setc", "c", ("d",), "list"), ("setc", "a", ("b", "c"), "list")):
        ev.append(("struct",) + op)
    ev.append(("retarget", "d", "e"))    # the intermediate link of a chain is pointed elsewhere: d -> e -> b
    ev.append(("retarget", "c", "b"))    # c -> b (so d -> c -> b)
    ev.append(("newlink", "a"))          # SymlinkNode(target a, foo=.., baz=..): constructor keywords land on the target
    ev.append(("newlink", "c"))
    return ev


def final_target(label, direct=None):
    direct = direct or {"c": "a", "d": "c", "e": "b"}
    seen = 0
    while label in direct and seen < 10:
        label = direct[label]
        seen += 1
    return label


def read_attr(obj, name):
    try:
        return ("val", getattr(obj, name))
    except AttributeError:
        return (MISSING,)


def own_dict(obj):
    return object.__getattribute__(obj, "__dict__")


def run_sequence(t, witness, seq):
    """Rebuild the forest, then apply the event sequence; after every step compare all reads with the model."""
    kind, n = "symmix", 5
    u = forest.rebuild(kind, n, witness)
    u.arm()
    cls = forest.classes()
    nodes = u.nodes
    model = {"a": {"name": "a"}, "b": {"name": "b"}}   # attribute store of the real (non-link) objects
    links = ("c", "d", "e")
    direct = {"c": "a", "d": "c", "e": "b"}
    step = 0
    ctx = {"engine": "E2", "module": MOD, "part": "attributes", "witness": [list(w) for w in witness], "events": [list(e) for e in seq]}

    def check(after):
        st = u.state()
        for l in list(nodes):
            obj = nodes[l]
            tl = final_target(l, direct) if l in links else l
            if l not in links and l not in model:
                continue
            for name in NAMES + ("baz", "nope"):
                exp = ("val", model[tl][name]) if name in model[tl] else (MISSING,)
                got = read_attr(obj, name)
                t.c["evaluations"] += 1
                same = exp[0] == got[0] and (exp[0] != "val" or got[1] is exp[1] or
                                             (isinstance(exp[1], (str, int)) and type(got[1]) is type(exp[1]) and got[1] == exp[1]))
                if not same:
                    t.violation("C20: reading %s.%s %s gives %r, the target's current value is %r" % (l, name, after, got, exp),
                                dict(ctx, step=step, read=[l, name], expected=exp, observed=got))
                    return False
            if l in links:
                d = own_dict(obj)
                stray = [k for k in d if k not in ("target", "_NodeMixin__parent", "_NodeMixin__children")]
                if stray:
                    t.violation("C20: attribute(s) %r are stored in the link %s itself %s" % (stray, l, after), dict(ctx, step=step))
                    return False
                if d.get("target") is not nodes[direct[l]]:
                    t.violation("C20: target of link %s changed %s" % (l, after), dict(ctx, step=step))
                    return False
        return st

    st = check("before any event")
    if st is False:
        return
    for k, ev in enumerate(seq):
        step = k + 1
        value = ["v%d" % step, step]
        if ev[0] == "write_none":
            setattr(nodes[ev[1]], ev[2], None)
            model[final_target(ev[1], direct)][ev[2]] = None
            t.c["none_writes"] += 1
            st2 = check("after writing None to %s.%s" % (ev[1], ev[2]))
            if st2 is False:
                return
        elif ev[0] == "write_equal":
            cur = model[final_target(ev[1], direct)].get(ev[2])
            if not isinstance(cur, list):
                continue  # nothing (list-valued) to be equal to yet
            value = list(cur)   # equal, but another object: the assignment must still be stored (identity is observable)
            setattr(nodes[ev[1]], ev[2], value)
            model[final_target(ev[1], direct)][ev[2]] = value
            t.c["equal_value_writes"] += 1
            st2 = check("after writing an equal but distinct object to %s.%s" % (ev[1], ev[2]))
            if st2 is False:
                return
        elif ev[0] == "write":
            setattr(nodes[ev[1]], ev[2], value)
            model[final_target(ev[1], direct)][ev[2]] = value
            t.c["writes"] += 1
            if ev[1] in links:
                t.c["writes_through_links"] += 1
            st2 = check("after writing %s.%s" % (ev[1], ev[2]))
            if st2 is False:
                return
            if st2 != st:
                t.violation("C20: an attribute write changed the tree structure", dict(ctx, step=step))
                return
        elif ev[0] == "retarget":
            if final_target(ev[2], direct) == ev[1] or ev[2] == ev[1]:
                continue  # would make the chain cyclic: not a legal configuration
            probe = dict(direct)
            probe[ev[1]] = ev[2]
            if final_target(ev[1], probe) in probe:
                continue
            nodes[ev[1]].target = nodes[ev[2]]
            direct[ev[1]] = ev[2]
            t.c["retargets"] += 1
            st2 = check("after %s.target = %s" % (ev[1], ev[2]))
            if st2 is False:
                return
            if st2 != st:
                t.violation("C20: assigning a link's target changed the tree structure", dict(ctx, step=step))
                return
        elif ev[0] == "struct":
            try:
                u.apply(ev[1:])
            except Exception:  # noqa - refused calls are fine
                pass
            t.c["structural_events"] += 1
            st = check("after structural call %r" % (ev[1:],))
            if st is False:
                return
        else:
            tgt = nodes[ev[1]]
            ln = cls["symlink"](tgt, foo=value, baz=step)
            model[final_target(ev[1], direct)]["foo"] = value
            model[final_target(ev[1], direct)]["baz"] = step
            t.c["constructor_kwargs"] += 1
            d = own_dict(ln)
            if [k for k in d if k not in ("target", "_NodeMixin__parent", "_NodeMixin__children")]:
                t.violation("C20: constructor keyword attributes are stored on the link", dict(ctx, step=step))
                return
            if read_attr(ln, "foo") != ("val", value) and read_attr(ln, "foo")[1:] != (value,):
                t.violation("C20: constructor keyword attribute is not readable through the new link", dict(ctx, step=step))
                return
            st2 = check("after SymlinkNode(%s, foo=..., baz=...)" % ev[1])
            if st2 is False:
                return
        t.c["nontrivial"] += 1
    t.c["sequences"] += 1


def check_refusing_targets(t):
    """A target that refuses an assignment (read-only property, undeclared attribute of a slotted class): the
    exception must surface and the link must not keep the value itself."""
    import anytree

    class Strict(anytree.NodeMixin):
        def __init__(self, name):
            self.name = name

        @property
        def ro(self):
            return "fixed"

    class Slotted(anytree.LightNodeMixin):
        __slots__ = ("name",)

        def __init__(self, name):
            self.name = name

    for tcls, attr in ((Strict, "ro"), (Slotted, "colour")):
        tgt = tcls("t")
        for depth in (1, 2):
            link = anytree.SymlinkNode(tgt)
            if depth == 2:
                link = anytree.SymlinkNode(link)
            before = read_attr(link, attr)
            try:
                setattr(link, attr, "mine")
                raised = False
            except AttributeError:
                raised = True
            t.c["evaluations"] += 1
            t.c["refused_writes"] += 1
            stray = [k for k in own_dict(link) if k not in ("target", "_NodeMixin__parent", "_NodeMixin__children")]
            why = None
            if stray:
                why = "a write the target refused was kept on the link itself (%r)" % stray
            elif not raised:
                why = "a write the target refuses was silently accepted"
            elif read_attr(link, attr) != before or read_attr(link, attr)[:1] != read_attr(tgt, attr)[:1]:
                why = "reading through the link differs from the target after a refused write"
            link.name = "renamed-%d" % depth
            if tgt.name != "renamed-%d" % depth:
                why = why or "an accepted write through the link did not reach the target"
            if why:
                t.violation("C20: " + why, {"engine": "E2", "module": MOD, "part": "refusing-target", "target_class": tcls.__name__,
                                            "attribute": attr, "chain_length": depth})


def check_link_classes(t):
    """SymlinkNodeMixin subclasses may provide `target` in any way an attribute can be provided: set in __init__ (the
    documented way), as a class attribute, or as a property.  Forwarding and tree position are the same for all."""
    import anytree

    tgt = anytree.Node("tgt", colour="red")
    other = anytree.Node("other", colour="blue")
    parent = anytree.Node("parent")

    class ViaInit(anytree.SymlinkNodeMixin):
        def __init__(self, target):
            self.target = target

    ViaClassAttr = type("ViaClassAttr", (anytree.SymlinkNodeMixin,), {"target": tgt})
    ViaProperty = type("ViaProperty", (anytree.SymlinkNodeMixin,), {"target": property(lambda self: tgt)})
    for label, mk_link in (("SymlinkNode", lambda: anytree.SymlinkNode(tgt)), ("target set in __init__", lambda: ViaInit(tgt)),
                           ("target as class attribute", ViaClassAttr), ("target as property", ViaProperty)):
        tgt.colour = "red"
        link = mk_link()
        why = None
        if read_attr(link, "colour") != ("val", "red") or read_attr(link, "name") != ("val", "tgt"):
            why = "reads on the link do not return the target's values"
        elif not hasattr(link, "colour") or hasattr(link, "no_such_attribute"):
            why = "hasattr on the link disagrees with the target"
        else:
            missing_before = not hasattr(link, "appears_later")
            tgt.appears_later = 5
            if not missing_before or read_attr(link, "appears_later") != ("val", 5):
                why = "an attribute the target gets later is not readable through the link (after an earlier failed read)"
            tgt.__dict__.pop("appears_later", None)
            link.alias = link                      # any value is forwarded, the link itself included
            if tgt.__dict__.get("alias") is not link:
                why = why or "assignment of the link itself as an attribute VALUE was not stored on the target"
            tgt.__dict__.pop("alias", None)
            link.colour = "green"
            link.fresh = 1
            if tgt.colour != "green" or getattr(tgt, "fresh", None) != 1:
                why = "writes on the link are not stored on the target"
            elif any(k in own_dict(link) for k in ("colour", "fresh")):
                why = "a forwarded write was kept on the link itself"
            else:
                tgt.colour = "later"
                if read_attr(link, "colour") != ("val", "later"):
                    why = "the link does not show the target's current value"
        if why is None:
            link.parent = parent
            kid = anytree.Node("kid", parent=link)
            if link.parent is not parent or parent.children[-1] is not link or link.children != (kid,) or tgt.parent is not None or tgt.children:
                why = "the link's tree position is not its own"
            link.parent = None
            kid.parent = None
        tgt.__dict__.pop("fresh", None)
        t.c["evaluations"] += 1
        t.c["link_class_variants"] += 1
        if why:
            t.violation("C20: %s (%s)" % (why, label), {"engine": "E2", "module": MOD, "part": "link-classes", "link_class": label})


def check_link_positions(t):
    """A link takes part in trees like any other node - also below / above nodes of unusual classes."""
    import anytree

    class Bag(anytree.NodeMixin):      # container-like: falsy while it has no children
        def __init__(self, name):
            self.name = name

        def __len__(self):
            return len(self.children)

    class LightBag(anytree.LightNodeMixin):
        __slots__ = ("name",)

        def __init__(self, name):
            self.name = name

        def __bool__(self):
            return False

    tgt = anytree.Node("t")
    for pcls in (Bag, anytree.AnyNode, anytree.Node):
        p = pcls("p") if pcls is not anytree.AnyNode else anytree.AnyNode(id="p")
        first = anytree.SymlinkNode(tgt, parent=p)
        second = anytree.SymlinkNode(tgt, parent=p, extra=1)
        kids = anytree.SymlinkNode(tgt, children=[pcls("c") if pcls is not anytree.AnyNode else anytree.AnyNode(id="c")])
        t.c["evaluations"] += 1
        t.c["constructor_positions"] += 1
        ok = (first.parent is p and second.parent is p and len(p.children) == 2 and p.children[0] is first and p.children[1] is second
              and len(kids.children) == 1 and kids.children[0].parent is kids and tgt.parent is None and len(tgt.children) == 0)
        if not ok:
            t.violation("C20: SymlinkNode(target, parent=<%s>, children=...) does not take its place in the tree" % pcls.__name__,
                        {"engine": "E2", "module": MOD, "part": "link-positions", "parent_class": pcls.__name__})


def check_long_chain(t, length=60):
    """A long acyclic chain of links (link to link to ... to a node) is legal: reads, writes and structure work."""
    import anytree

    tgt = anytree.Node("t", colour="red")
    chain = [tgt]
    for i in range(length):
        chain.append(anytree.SymlinkNode(chain[-1]))
    top = chain[-1]
    t.c["evaluations"] += 1
    t.c["long_chain_checks"] += 1
    why = None
    if top.colour != "red" or top.name != "t":
        why = "read through %d links does not reach the target" % length
    top.colour = ["blue"]
    if tgt.colour != ["blue"] or any("colour" in own_dict(l) for l in chain[1:]):
        why = why or "write through %d links does not reach the target" % length
    chain[30].target = anytree.Node("t2", colour="green")
    if top.colour != "green" or chain[29].colour != ["blue"]:
        why = why or "re-targeting the middle of the chain is not followed"
    kid = anytree.Node("kid", parent=top)
    if top.children != (kid,) or tgt.children != () or chain[30].children != ():
        why = why or "children of the outermost link leak along the chain"
    if why:
        t.violation("C20: " + why, {"engine": "E2", "module": MOD, "part": "long-chain", "length": length})


def job_refusing():
    t = core.Tally()
    core.guard(t, "C20", {"engine": "E2", "module": MOD, "part": "long-chain"}, check_long_chain, t)
    core.guard(t, "C20", {"engine": "E2", "module": MOD, "part": "refusing-target"}, check_refusing_targets, t)
    core.guard(t, "C20", {"engine": "E2", "module": MOD, "part": "link-positions"}, check_link_positions, t)
    core.guard(t, "C20", {"engine": "E2", "module": MOD, "part": "link-classes"}, check_link_classes, t)
    return t


def job_attr(states, depth, deep_from_initial):
    t = core.Tally()
    ev = events(None)
    for key, state, witness in states:
        t.c["states"] += 1
        for d in range(1, depth + 1):
            for seq in itertools.product(ev, repeat=d):
                t.c["transitions"] += 1
                core.guard(t, "C20", {"engine": "E2", "module": MOD, "part": "attributes", "witness": [list(w) for w in witness],
                                      "events": [list(e) for e in seq]}, run_sequence, t, witness, seq, _limit=10)
        t.obs(("attr", key, t.c["evaluations"]))
    if deep_from_initial:
        for seq in itertools.product(ev, repeat=depth + 1):
            if not any(e[0] != "write" for e in seq) and len({e[1:] for e in seq}) == 1:
                continue
            t.c["transitions"] += 1
            core.guard(t, "C20", {"engine": "E2", "module": MOD, "part": "attributes", "witness": [], "events": [list(e) for e in seq]},
                       run_sequence, t, (), seq, _limit=10)
    t.sample({"universe": "a,b: Node; c -> a; d -> c (link to link); e -> b (other tree)",
              "events": [list(e) for e in ev[:3] + ev[-4:]]}, cap=1)
    return t


def _tup(x):
    return tuple(_tup(i) for i in x) if isinstance(x, list) else x


def replay(c):
    t = core.Tally()
    if c.get("part") == "long-chain":
        check_long_chain(t)
        return [v["why"] for v in t.violations]
    if c.get("part") == "link-positions":
        check_link_positions(t)
        return [v["why"] for v in t.violations]
    if c.get("part") == "refusing-target":
        check_refusing_targets(t)
        return [v["why"] for v in t.violations]
    if c.get("part") == "link-classes":
        check_link_classes(t)
        return [v["why"] for v in t.violations]
    run_sequence(t, _tup(c["witness"]), _tup(c["events"]))
    return [v["why"] for v in t.violations]


def run(tier):
    known = core.load_known_findings("C20")
    extra = {"known": {k: 1 for k in known}}
    cfgs = [
        dict(kind="symmix", n=4, cfg=dict(CFG, new=("symlink>a",)), hidden=False, d=1, persistent=P2, assertions=0, judge="c20", extra=extra),
        dict(kind="symlink", n=3, cfg=dict(CFG, read=True), hidden=True, d=2, persistent=P2, assertions=1, judge="c20", extra=extra),
        dict(kind="mixed", n=3, cfg=dict(CFG), hidden=False, d=1, assertions=0, judge="c20", extra=extra),
    ]
    if tier == "thorough":
        cfgs += [
            dict(kind="symmix", n=5, cfg=dict(CFG, extras=False, L=3), hidden=False, d=1, persistent=P2, assertions=0, judge="c20", extra=extra),
            dict(kind="symmix", n=4, cfg=dict(CFG), hidden=True, d=2, persistent=P2, assertions=1, judge="c20", extra=extra),
        ]
    t, summ = e1run.run_configs(cfgs)
    pool = core.Pool(0)
    try:
        # attribute interleavings from forest states of the 5-label symlink universe (a subset reachable by parent moves)
        states = forest.discover(pool, "symmix", 5, {"read": False, "nonnode": False, "extras": False, "L": 1}, False)
        sel = states[::3] if tier == "thorough" else states[:: max(1, len(states) // 120)]
        depth = 2
        jobs = [(MOD, "job_attr", {"states": s, "depth": depth, "deep_from_initial": False}) for s in core.shard(sel, core.NPROC * 4)]
        jobs.append((MOD, "job_attr", {"states": [], "depth": 2, "deep_from_initial": True}))
        jobs.append((MOD, "job_refusing", {}))
        pool.run(jobs + [("mc.positional", "job", {"pid": "C20"})], into=t)
    finally:
        pool.close()
    cov = {
        "states": t.c["states"], "transitions": t.c["transitions"],
        "traces_validated_against_impl": t.c["executions"] + t.c["sequences"],
        "evaluations": t.c["executions"] + t.c["evaluations"], "distinct_nontrivial": t.c["nontrivial"],
        "rule": "structure: E1 exploration (all forests, all structural calls incl. SymlinkNode constructor calls, hook faults) of "
                "universes {Node a, Node b, link c->a, link d->c, (link e->b)}, {links to external targets}, {Node, AnyNode, link, "
                "mixin} with the C01 invariant, the C02 model and the C03 oracle, and external targets never touched; attributes: "
                "from %d forest states of the 5-label universe every sequence of <=2 events (and every sequence of 3 from the initial "
                "state) over 14 attribute writes (through link / link-to-link / on target), 7 structural calls, 2 re-targetings of links and 2 constructor "
                "calls with keywords; after each event every read on every link and node is compared by identity with a reference "
                "attribute store, and link objects must not store forwarded attributes; non-trivial = events applied" % len(sel),
        "bounds": summ + [{"attribute_start_states": len(sel), "of": len(states), "event_menu": 22, "depth": "2 (3 from the initial state)"}],
    }
    return {"tally": t, "coverage": cov, "known": known,
            "guards": ("link_class_variants", "positional_calls", "writes_through_links", "structural_events", "constructor_kwargs", "sequences", "refusals", "pre_hook_vetoes",
                       "retargets", "refused_writes", "constructor_positions", "equal_value_writes", "none_writes", "long_chain_checks"),
            "assumptions": ["attribute names {foo, bar, name, __tag__, godparent, target_id, baz, nope}; bounded universes", "C03 known findings apply to link nodes "
                            "identically (same setter code) and are matched exactly as in C03"]}
