"""C11 - JSON export and import round-trip every JSON-representable tree
(E2: shapes x JSON value domain x json options x maxlevel x custom dictexporter/dictimporter, also as
sequences of two exporter configurations so that state leaking between exporters is seen)."""
import io
import itertools
import json

from .. import core, tree
from . import c10

MOD = "mc.props.c11"
VALUES = [
    {"s": "ä€"},
    {"s": "\u0000\n\"\\\t", "e": ""},
    {"l": [1, [2, {"k": None}]]},
    {"d": {"a": {"b": []}}},
    {"n": None, "t": True, "f": False},
    {"i": 0, "j": -7, "big": 2 ** 70},
    {"x": 0.1, "y": -0.0, "z": 1e308},
    {"u": "a b c\u0085d"},
    {},
    {"size": 7, "depth": "x", "is_leaf": None},   # attributes named like read-only NodeMixin properties
    {"_id": 7, "__v": [1], "_": "underscore names are user attributes too", "id_": 1},
]
OPTIONS = [
    {},
    {"indent": 2},
    {"sort_keys": True},
    {"ensure_ascii": False},
    {"separators": (",", ":")},
    {"indent": 2, "separators": (", ", ": ")},
    {"indent": 4, "ensure_ascii": False, "sort_keys": True},
    {"indent": 1, "ensure_ascii": False, "separators": (",", ": ")},
    # options passed explicitly with their default value (a wrapper forwarding optional settings), and the other indent forms
    {"indent": None},
    {"indent": None, "separators": None, "sort_keys": False, "ensure_ascii": True},
    {"indent": 0},
    {"indent": "\t", "sort_keys": True},
]
DEXP = ("default", "sorted", "reversed", "subclass")


def mk_dictexporter(name):
    from anytree.exporter import DictExporter

    if name == "default":
        return None, (lambda items: list(items)), (lambda cs: list(cs))
    if name == "subclass":
        # a DictExporter subclass with its own attribute selection and its own maxlevel: JsonExporter must keep using it
        class NoE(DictExporter):
            @staticmethod
            def _iter_attr_values(node):
                for k, v in DictExporter._iter_attr_values(node):
                    if k != "e":
                        yield k, v

        return NoE(maxlevel=5), (lambda items: [(k, v) for k, v in items if k != "e"]), (lambda cs: list(cs))
    if name == "sorted":
        f = lambda items: sorted(items, key=lambda kv: kv[0])  # noqa
        return DictExporter(attriter=f), f, (lambda cs: list(cs))
    return DictExporter(childiter=lambda cs: list(reversed(cs))), (lambda items: list(items)), (lambda cs: list(cs)[::-1])


def deep_eq(a, b):
    """Equality that also distinguishes types (True vs 1, 0.0 vs -0.0, int vs float)."""
    if type(a) is not type(b):
        return False
    if isinstance(a, dict):
        return set(a.keys()) == set(b.keys()) and all(deep_eq(a[k], b[k]) for k in a)  # key order is not a value
    if isinstance(a, list):
        return len(a) == len(b) and all(deep_eq(x, y) for x, y in zip(a, b))
    if isinstance(a, float):
        return repr(a) == repr(b)
    return a == b


def tree_of(node):
    return ({k: v for k, v in vars(node).items() if k not in c10.BOOK}, [tree_of(c) for c in node.children])


def tree_eq(a, b):
    return deep_eq(a[0], b[0]) and len(a[1]) == len(b[1]) and all(tree_eq(x, y) for x, y in zip(a[1], b[1]))


def ref_tree(m, attrs, v, level, maxlevel, attrit, childit):
    kids = []
    if maxlevel is None or level < maxlevel:
        kids = [ref_tree(m, attrs, c, level + 1, maxlevel, attrit, childit) for c in childit(m.ch[v])]
    return (dict(attrit(list(attrs[v].items()))), kids)


def one_export(t, m, nodes, attrs, start, ml, dname, opts, ctx):
    """Evaluate one exporter configuration on one start node."""
    import anytree
    from anytree.exporter import JsonExporter
    from anytree.importer import DictImporter, JsonImporter

    dexp, aref, cref = mk_dictexporter(dname)
    exp_dict = c10.ref_export(m, attrs, start, 1, ml, aref, cref, dict)
    exp_text = json.dumps(exp_dict, **opts)
    kw = dict(opts)
    if dexp is not None:
        kw["dictexporter"] = dexp
    if ml is not None or ctx.get("explicit_none"):
        kw["maxlevel"] = ml
    exporter = JsonExporter(**kw)
    got = exporter.export(nodes[start])
    t.c["evaluations"] += 1
    t.obs((ctx["shape"], ctx["assign"], start, ml, dname, sorted(opts.items()), got))
    why = None
    if got != exp_text:
        why = "export() is not json.dumps(dict export, **options)"
    else:
        buf = io.StringIO()
        exporter.write(nodes[start], buf)
        if buf.getvalue() != exp_text:
            why = "write() emits a different text than export()"
        else:
            again = exporter.export(nodes[start])
            if again != exp_text:
                why = "second export() of the same exporter differs"
    if why is None:
        # an exporter constructed with other settings, used once, then re-configured through its public attributes
        rex = JsonExporter(dictexporter=mk_dictexporter("reversed")[0], maxlevel=1, indent=7, sort_keys=True)
        rex.export(nodes[0])
        rex.dictexporter, rex.maxlevel, rex.kwargs = mk_dictexporter(dname)[0], ml, dict(opts)
        for first in ("write", "export"):
            buf = io.StringIO()
            if first == "write":
                rex.write(nodes[start], buf)
            text = buf.getvalue() if first == "write" else rex.export(nodes[start])
            t.c["reconfigured_exports"] += 1
            if text != exp_text:
                why = "%s() of an exporter re-configured through its public attributes differs from a fresh exporter's" % first
                got = text
                break
    if why is None:
        want = ref_tree(m, attrs, start, 1, ml, aref, cref)
        for imp_name, importer in (("default", JsonImporter()), ("custom", JsonImporter(dictimporter=DictImporter(nodecls=c10._user())))):
            r1 = importer.import_(got)
            r2 = importer.read(io.StringIO(got))
            t.c["imports"] += 1
            cls = anytree.AnyNode if imp_name == "default" else c10._user()
            if not tree_eq(tree_of(r1), want):
                why = "import_(export(t)) is not isomorphic to t (%s importer)" % imp_name
            elif not tree_eq(tree_of(r2), tree_of(r1)):
                why = "read() and import_() disagree"
            elif not c10._all_instances(r1, cls):
                why = "imported nodes have the wrong class"
    if why is None and (not opts or opts.get("ensure_ascii") is False):
        # what json.loads / json.load accept, import_ / read accept: bytes, bytearray, binary handles, and a handle that
        # is positioned behind something the caller consumed already
        want = ref_tree(m, attrs, start, 1, ml, aref, cref)
        imp = JsonImporter()
        variants = [("bytes", lambda: imp.import_(got.encode("utf-8"))), ("bytearray", lambda: imp.import_(bytearray(got.encode("utf-8")))),
                    ("utf-16 bytes", lambda: imp.import_(got.encode("utf-16"))),
                    ("binary handle", lambda: imp.read(io.BytesIO(got.encode("utf-8"))))]

        def positioned():
            fh = io.StringIO("# header line\n" + got)
            fh.readline()
            return imp.read(fh)
        variants.append(("handle positioned behind a header line", positioned))
        for vname, call in variants:
            t.c["import_input_variants"] += 1
            try:
                r = call()
                if not tree_eq(tree_of(r), want):
                    why = "import from %s gives another tree" % vname
            except Exception as exc:  # noqa
                why = "import from %s raises %s" % (vname, type(exc).__name__)
            if why:
                break
    if why is None and not opts:
        # one importer object, the same text twice; the first tree is edited in place in between
        want = ref_tree(m, attrs, start, 1, ml, aref, cref)
        imp = JsonImporter()
        r1 = imp.import_(got)
        _scribble(r1)
        r2 = imp.import_(got)
        r3 = imp.read(io.StringIO(got))
        t.c["importer_reuse_checks"] += 1
        if not tree_eq(tree_of(r2), want) or not tree_eq(tree_of(r3), want):
            why = "a re-used JsonImporter returns a tree that shares / reflects edits made to an earlier import of the same text"
    if why:
        c = dict(ctx)
        c.update({"engine": "E2", "module": MOD, "start": start, "maxlevel": ml, "dictexporter": dname, "options": opts,
                  "expected": exp_text, "observed": got})
        t.violation("C11: " + why, c)
    return why is None


def _scribble(node):
    """Edit every container-valued attribute of an imported tree in place."""
    for k, v in list(vars(node).items()):
        if k in c10.BOOK:
            continue
        _scribble_value(v)
    for c in node.children:
        _scribble(c)


def _scribble_value(v):
    if isinstance(v, list):
        for x in v:
            _scribble_value(x)
        v.append("scribble")
    elif isinstance(v, dict):
        for x in list(v.values()):
            _scribble_value(x)
        v["scribble"] = 1


def check_tree(t, shape, assign, pairs):
    import anytree

    m = tree.Model.from_shape(shape)
    attrs = [dict(VALUES[a]) for a in assign]
    nodes = [anytree.AnyNode(**json.loads(json.dumps(a))) for a in attrs]
    for i in range(m.n):
        if m.par[i] is not None:
            nodes[i].parent = nodes[m.par[i]]
    ctx = {"shape": shape, "assign": list(assign)}
    if sum(assign) % 2 == 0:
        # every navigation attribute has been read before the export (whatever the mixin remembers is not node data)
        for nd in nodes:
            (nd.size, nd.height, nd.depth, nd.path, nd.root, nd.leaves, nd.descendants, nd.ancestors, nd.siblings, nd.is_leaf, nd.is_root)
        t.c["exports_after_navigation_reads"] += 1
    for start in range(m.n):
        t.c["states"] += 1
        h = m.height(start)
        for ml in [None, 0, 1] + ([2] if h >= 1 else []):
            for dname in DEXP:
                for opts in OPTIONS:
                    if m.size(start) > 1 or attrs[start]:
                        t.c["nontrivial"] += 1
                    one_export(t, m, nodes, attrs, start, ml, dname, opts, ctx)
    if pairs:
        # sequences of two configurations: the second must not depend on the first
        menu = [(ml, d) for ml in (None, 1, 2) for d in ("default", "sorted")]
        for (ml1, d1), (ml2, d2) in itertools.product(menu, menu):
            one_export(t, m, nodes, attrs, 0, ml1, d1, {}, ctx)
            ok = one_export(t, m, nodes, attrs, 0, ml2, d2, {"sort_keys": True}, dict(ctx, after={"maxlevel": ml1, "dictexporter": d1}))
            t.c["config_pairs"] += 1
    t.sample({"shape": shape, "attribute_values": attrs, "options": OPTIONS[5]}, cap=1)


def job(items, pairs):
    t = core.Tally()
    for shape, assign in items:
        core.guard(t, "C11", {"engine": "E2", "module": MOD, "shape": shape, "assign": list(assign)}, check_tree, t, shape, assign, pairs)
    return t


def _tup(x):
    return tuple(_tup(i) for i in x) if isinstance(x, list) else x


def replay(c):
    t = core.Tally()
    check_tree(t, _tup(c["shape"]), tuple(c["assign"]), True)
    return [v["why"] for v in t.violations]


def run(tier):
    nfull, npart = (2, 4) if tier == "quick" else (3, 5)
    items = []
    for n in range(1, npart + 1):
        for s in tree.plane_trees(n):
            if n <= nfull:
                asg = list(itertools.product(range(len(VALUES)), repeat=n))
            else:
                asg = [tuple((i * (r + 2) + r) % len(VALUES) for i in range(n)) for r in range(len(VALUES))]
            items += [(s, a) for a in asg]
    t = core.Tally()
    core.run_pool([(MOD, "job", {"items": c, "pairs": True}) for c in core.chunks(items[::-1], core.NPROC * 6)] +
                  [(MOD, "job", {"items": c, "pairs": False}) for c in core.chunks(items, core.NPROC * 2 + 1)] + [("mc.positional", "job", {"pid": "C11"}), ("mc.numbers", "job", {"pid": "C11"})], 0, into=t)   # second pass, other order
    core.run_pool([(MOD, "job", {"items": c, "pairs": False}) for c in core.chunks(items[:40], core.NPROC)], 1, into=t)
    cov = {
        "states": t.c["states"], "transitions": t.c["evaluations"], "traces_validated_against_impl": t.c["evaluations"],
        "evaluations": t.c["evaluations"], "distinct_nontrivial": t.c["nontrivial"],
        "rule": "ordered trees up to %d nodes, every per-node choice among %d JSON attribute dictionaries up to %d nodes "
                "(rotations above) x start x maxlevel {None,0,1,2} x 3 dictexporters x %d json option sets: export == "
                "json.dumps(reference dict export), write == export, import_/read isomorphic incl. value types; plus all "
                "ordered pairs of 6 exporter configurations run back to back (history independence); non-trivial = "
                "non-empty attributes or more than one node" % (npart, len(VALUES), nfull, len(OPTIONS)),
        "bounds": {"full_upto": nfull, "max_nodes": npart, "trees": len(items)},
    }
    return {"tally": t, "coverage": cov, "guards": ("unusual_number_calls", "exports_after_navigation_reads", "positional_calls", "reconfigured_exports", "nontrivial", "imports", "config_pairs", "importer_reuse_checks", "import_input_variants"),
            "assumptions": ["JSON value domain of %d dictionaries; NaN/Infinity are not JSON and excluded" % len(VALUES)]}
