"""C12 - DOT export declares exactly the admitted nodes and only edges between them
(E2: shapes x start x every stop subset x every filtered-out subset x maxlevel for DotExporter, UniqueDotExporter,
RenderTreeGraph; the text is decoded by a line parser with un-escaper; plus short histories on one exporter)."""
import os
import tempfile
import warnings

from .. import core, tree

MOD = "mc.props.c12"
MAXK = [None]   # bound on the size of stop / filtered-out subsets (None: all subsets)
NAMES = ["n0", 'q"x', "b\\", "a b", "é", '6"-6\\"', "n0", '\\"', "x;y", "", "100%", "%s", "%%d", "C:\\new", "a\\l\\r", "t\\\\n"]
KF = "KF-C12-edge-to-stopped-child"


def unquote(s, pos):
    """s[pos] must be '"'; returns (decoded string, index after the closing quote) or None."""
    if pos >= len(s) or s[pos] != '"':
        return None
    out = []
    i = pos + 1
    while i < len(s):
        ch = s[i]
        if ch == "\\":
            if i + 1 >= len(s):
                return None
            out.append(s[i + 1])
            i += 2
        elif ch == '"':
            return "".join(out), i + 1
        else:
            out.append(ch)
            i += 1
    return None


def parse(lines, indent, noptions):
    """-> dict(header, options, nodes [(id, attr)], edges [(id, type, id, attr)], closed) or a string (error)."""
    if not lines:
        return "no output"
    res = {"header": lines[0], "options": lines[1:1 + noptions], "nodes": [], "edges": [], "closed": lines[-1] == "}"}
    body = lines[1 + noptions:-1] if res["closed"] else lines[1 + noptions:]
    seen_edge = False
    for ln in body:
        if not ln.startswith(indent):
            return "line %r lacks the indent" % ln
        rest = ln[len(indent):]
        a = unquote(rest, 0)
        if a is None:
            return "line %r does not start with a quoted identifier" % ln
        ident, pos = a
        tail = rest[pos:]
        if not tail.endswith(";"):
            return "line %r does not end with ';'" % ln
        tail = tail[:-1]
        if tail == "" or tail.startswith(" ["):
            if seen_edge:
                return "node statement after an edge statement: %r" % ln
            attr = None
            if tail:
                if not tail.endswith("]"):
                    return "bad attribute list in %r" % ln
                attr = tail[2:-1]
            res["nodes"].append((ident, attr))
            continue
        # edge: ' <type> "<id>"[ [attr]]'
        if not tail.startswith(" "):
            return "unparsable line %r" % ln
        q = tail.find(' "', 1)
        if q < 0:
            return "unparsable edge line %r" % ln
        etype = tail[1:q]
        b = unquote(tail, q + 1)
        if b is None:
            return "unparsable edge target in %r" % ln
        ident2, pos2 = b
        t2 = tail[pos2:]
        attr = None
        if t2:
            if not (t2.startswith(" [") and t2.endswith("]")):
                return "bad edge attribute list in %r" % ln
            attr = t2[2:-1]
        seen_edge = True
        res["edges"].append((ident, etype, ident2, attr))
    return res


def reference(m, start, stopset, hidden, ml):
    exp, adm = m.restricted(start, frozenset(stopset), frozenset(hidden), ml)
    declared = exp["pre"]
    dset = set(declared)
    edges = [(p, c) for p in declared for c in m.ch[p] if c in dset]
    d0 = m.depth(start)
    d6 = [(p, c) for p in declared for c in m.ch[p]
          if c in stopset and c not in hidden and (ml is None or m.depth(c) - d0 < ml)]
    return declared, edges, d6


def exporters():
    from anytree.exporter import DotExporter, UniqueDotExporter

    with warnings.catch_warnings():
        warnings.simplefilter("ignore")
        from anytree.dotexport import RenderTreeGraph
    return {"dot": DotExporter, "unique": UniqueDotExporter, "legacy": RenderTreeGraph}


def mk(cls, *a, **kw):
    with warnings.catch_warnings():
        warnings.simplefilter("ignore")
        return cls(*a, **kw)


NONSTRING = [1.0, True, 0, False, 1, 0.0, (1, 2), (1.0, 2.0)]   # equal by value, different when printed


def names_for(m, rot):
    if rot == 10:
        return ["same"] * m.n            # every node has the same name: plain DotExporter still declares every node
    if rot == 11:
        return [("x", 'y"')[i % 2] for i in range(m.n)]
    if rot == 9:
        return [NONSTRING[i % len(NONSTRING)] for i in range(m.n)]
    return [NAMES[(i * 3 + rot) % len(NAMES)] + ("" if (i + rot) % 4 else "#%d" % i) for i in range(m.n)]


def unique_names(names):
    return len(set(names)) == len(names)


def judge_export(t, m, names, which, lines, start, stopset, hidden, ml, ctx, known, id_of=None, opts=None):
    """Compare one export with the reference.  id_of: callable index -> expected decoded identifier (default: name)."""
    opts = opts or {}
    indent = " " * opts.get("indent", 4)
    options = opts.get("options") or []
    declared, edges, d6 = reference(m, start, stopset, hidden, ml)
    p = parse(lines, indent, len(options))
    why = None
    if isinstance(p, str):
        why = "output cannot be decoded: " + p
    else:
        if p["header"] != "%s %s {" % (opts.get("graph", "digraph"), opts.get("name", "tree")):
            why = "wrong header line %r" % p["header"]
        elif p["options"] != [indent + o for o in options]:
            why = "option lines differ"
        elif not p["closed"]:
            why = "closing brace missing"
    ids = None
    if why is None:
        got_ids = [n[0] for n in p["nodes"]]
        if which == "unique" and id_of is None:
            # identifiers are free but must be distinct per node
            if len(set(got_ids)) != len(got_ids):
                why = "two declared nodes share an identifier"
            elif len(got_ids) != len(declared):
                why = "declared nodes differ from the admitted pre-order"
            else:
                ids = dict(zip(declared, got_ids))
                for v, (ident, attr) in zip(declared, p["nodes"]):
                    if attr != 'label="%s"' % (names[v],):
                        why = "default label attribute differs"
        else:
            f = id_of or (lambda v: str(names[v]))
            exp_ids = [f(v) for v in declared]
            if got_ids != exp_ids:
                why = "declared nodes (decoded identifiers) differ from the admitted pre-order"
            ids = {v: f(v) for v in range(m.n)}
            nattr = opts.get("nodeattr")
            for v, (ident, attr) in zip(declared, p["nodes"]):
                if attr != (nattr(v) if nattr else None):
                    why = why or "node attribute text differs"
    kf = False
    if why is None:
        if which == "unique" and id_of is None:
            # edges may also name undeclared (stopped) nodes in the known finding: give them fresh symbolic ids
            rev = {i: v for v, i in ids.items()}
            got_edges = [(rev.get(a, "?" + a), rev.get(b, "?" + b)) for a, _, b, _ in p["edges"]]
        else:
            if len(set(ids.values())) == len(ids):
                rev = {i: v for v, i in ids.items()}
                got_edges = [(rev.get(a, "?" + a), rev.get(b, "?" + b)) for a, _, b, _ in p["edges"]]
            else:
                # colliding names (allowed for DotExporter): compare on identifiers
                got_edges = [(a, b) for a, _, b, _ in p["edges"]]
                edges = [(ids[a], ids[b]) for a, b in edges]
                d6 = [(ids[a], ids[b]) for a, b in d6]
        exp_sorted = sorted(edges, key=repr)
        extra = list(got_edges)
        missing = []
        for e in edges:
            if e in extra:
                extra.remove(e)
            else:
                missing.append(e)
        if missing:
            why = "admitted parent-child link(s) %r have no edge statement" % (missing[:3],)
        elif extra:
            # which == unique: an undeclared stopped child shows up as '?<id>' - map D6 candidates accordingly
            d6left = list(d6)
            unexplained = []
            for e in extra:
                cand = [x for x in d6left if x[0] == e[0] and (x[1] == e[1] or (isinstance(e[1], str) and e[1].startswith("?")))]
                if cand:
                    d6left.remove(cand[0])
                else:
                    unexplained.append(e)
            if unexplained or KF not in known:
                why = "edge statement(s) %r name a node that is not declared / a pair that is not admitted" % ((unexplained or extra)[:3],)
            else:
                kf = True
        etype, eattr = opts.get("edgetype"), opts.get("edgeattr")
        if why is None and not kf:
            for (a, ty, b, at), (pa, ch) in zip(p["edges"], edges if len(p["edges"]) == len(edges) else []):
                if isinstance(pa, int):
                    if ty != (etype(pa, ch) if etype else "->") or at != (eattr(pa, ch) if eattr else None):
                        why = "edge type / attribute text differs"
    t.c["evaluations"] += 1
    if stopset or hidden or (ml is not None and ml <= m.height(start)):
        t.c["nontrivial"] += 1
    if any(h in declared for h in []) or any(m.ch[h] and any(c in declared for c in m.ch[h]) for h in hidden):
        t.c["hidden_parent_with_declared_child"] += 1
    if kf:
        t.kf(KF, dict(ctx, exporter=which, start=start, stop=sorted(stopset), filtered_out=sorted(hidden), maxlevel=ml, observed=lines))
    if why:
        c = dict(ctx)
        c.update({"engine": "E2", "module": MOD, "exporter": which, "start": start, "stop": sorted(stopset),
                  "filtered_out": sorted(hidden), "maxlevel": ml, "names": names, "observed": lines,
                  "expected": {"declared": declared, "edges": edges}})
        t.violation("C12: " + why, c)
    return p if not isinstance(p, str) else None


def check_shape(t, shape, known, rot=0, only=None, custom=True, histories=True, kind="node"):
    m = tree.Model.from_shape(shape)
    names = names_for(m, rot)
    exps = exporters()
    nodes = tree.build(m, tree.default_factory(kind), "topdown", names=names)
    idm = tree.IdMap(nodes)
    ctx = {"shape": shape, "rot": rot, "kind": kind}
    for start in range(m.n):
        t.c["states"] += 1
        sub = m.pre(start)
        h = m.height(start)
        for stopset in core.powerset(sub, MAXK[0]):
            sids = frozenset(id(nodes[v]) for v in stopset)
            stop = (lambda n, s=sids: id(n) in s) if stopset else None
            for hidden in core.powerset(sub, MAXK[0]):
                hids = frozenset(id(nodes[v]) for v in hidden)
                filt = (lambda n, s=hids: id(n) not in s) if hidden else None
                for ml in [None] + list(range(0, h + 2)):
                    for which, cls in exps.items():
                        if only and (which, start, sorted(stopset), sorted(hidden), ml) != only:
                            continue
                        e = mk(cls, nodes[start], filter_=filt, stop=stop, maxlevel=ml)
                        lines = list(e)
                        t.obs((shape, rot, which, start, stopset, hidden, ml, lines))
                        judge_export(t, m, names, which, lines, start, stopset, hidden, ml, ctx, known)
                        if which == "legacy":
                            ref = list(exps["dot"](nodes[start], filter_=filt, stop=stop, maxlevel=ml))
                            if ref != lines:
                                t.violation("C12: RenderTreeGraph emits other lines than DotExporter",
                                            dict(ctx, engine="E2", module=MOD, exporter="legacy", start=start, stop=sorted(stopset),
                                                 filtered_out=sorted(hidden), maxlevel=ml, names=names))
                        if which == "unique" and not stopset:
                            # stability: same identifiers on repeated iteration of the same exporter
                            again = list(e)
                            if again != lines:
                                t.violation("C12: UniqueDotExporter identifiers change on repeated iteration",
                                            dict(ctx, engine="E2", module=MOD, exporter="unique", start=start, stop=[],
                                                 filtered_out=sorted(hidden), maxlevel=ml, names=names, observed=again, first=lines))
    if only:
        return
    if custom:
        check_custom(t, m, names, nodes, known, ctx)
    if histories:
        check_histories(t, m, names, known, ctx)
    t.sample({"shape": shape, "names": names, "example": list(exps["dot"](nodes[0]))}, cap=1)


def check_custom(t, m, names, nodes, known, ctx):
    """Custom functions, options, indent, graph/name; to_dotfile."""
    exps = exporters()
    idm = tree.IdMap(nodes)
    namef = lambda nd: ('N:"%s"\\%d' % (nd.name, idm(nd))) if idm(nd) % 4 != 3 else 1000 + idm(nd)  # noqa - escaping; sometimes an int
    # None means "no attribute list"; an empty string is a (legal, empty) attribute list and must appear verbatim
    nattr = lambda nd: (None if idm(nd) % 2 else 'shape=box, label="%s"' % idm(nd)) if idm(nd) % 3 else ""  # noqa
    eattr = lambda a, b: (None if idm(b) % 2 else "label=%d_%d" % (idm(a), idm(b))) if idm(b) % 3 else ""  # noqa
    etype = lambda a, b: "--" if idm(b) % 3 else "-x-"  # noqa
    options = ["rankdir=LR;", 'label="x y";']
    for which in ("dot", "unique", "legacy"):
        for indent in (0, 2):
            for start in (0, m.n - 1):
                gname = ("g1", "my tree", "file-system:0", "bäume")[(indent + start + len(names)) % 4]   # appears verbatim, whatever it is
                e = mk(exps[which], nodes[start], graph="graph", name=gname, options=options, indent=indent, nodenamefunc=namef,
                       nodeattrfunc=nattr, edgeattrfunc=eattr, edgetypefunc=etype)
                lines = list(e)
                t.c["custom_function_exports"] += 1
                judge_export(t, m, names, which, lines, start, (), (), None, dict(ctx, custom=True, indent=indent), known,
                             id_of=lambda v: ('N:"%s"\\%d' % (names[v], v)) if v % 4 != 3 else str(1000 + v),
                             opts={"indent": indent, "options": options, "graph": "graph", "name": gname,
                                   "nodeattr": lambda v: (None if v % 2 else 'shape=box, label="%s"' % v) if v % 3 else "",
                                   "edgeattr": lambda a, b: (None if b % 2 else "label=%d_%d" % (a, b)) if b % 3 else "",
                                   "edgetype": lambda a, b: "--" if b % 3 else "-x-"})
                if which == "dot" and indent == 2 and start == 0:
                    with tempfile.TemporaryDirectory(prefix="verif-c12-") as d:
                        fn = os.path.join(d, "t.dot")
                        e.to_dotfile(fn)
                        with open(fn, encoding="utf-8") as f:
                            text = f.read()
                    if text != "".join(l + "\n" for l in lines):
                        t.violation("C12: to_dotfile writes other lines than iteration", dict(ctx, engine="E2", module=MOD, exporter="dot",
                                    start=0, stop=[], filtered_out=[], maxlevel=None, names=names))
    # options may be any iterable; custom functions are asked about admitted nodes / admitted pairs only
    class NotAsked(Exception):
        pass

    hidden = m.n - 1
    def guard(f):
        def g(*nds):
            if any(idm(x) == hidden for x in nds):
                raise NotAsked("custom function called for the filtered-out node %d" % hidden)
            return f(*nds)
        return g
    for which in ("dot", "unique") if m.n > 1 else ():
        for opts in (tuple(options), (o for o in options)):
            e = mk(exps[which], nodes[0], options=opts, indent=2, nodenamefunc=guard(namef), nodeattrfunc=guard(nattr),
                   edgeattrfunc=guard(eattr), edgetypefunc=guard(etype), filter_=lambda n: idm(n) != hidden)
            try:
                lines = list(e)
            except NotAsked as exc:
                t.violation("C12: " + str(exc), dict(ctx, engine="E2", module=MOD, exporter=which, custom=True, start=0, stop=[],
                            filtered_out=[hidden], maxlevel=None, names=names))
                continue
            t.c["custom_function_exports"] += 1
            judge_export(t, m, names, which, lines, 0, (), (hidden,), None, dict(ctx, custom=True, indent=2), known,
                         id_of=lambda v: ('N:"%s"\\%d' % (names[v], v)) if v % 4 != 3 else str(1000 + v),
                         opts={"indent": 2, "options": options,
                               "nodeattr": lambda v: (None if v % 2 else 'shape=box, label="%s"' % v) if v % 3 else "",
                               "edgeattr": lambda a, b: (None if b % 2 else "label=%d_%d" % (a, b)) if b % 3 else "",
                               "edgetype": lambda a, b: "--" if b % 3 else "-x-"})
    # indent is a plain prefix (blank option, option with several physical lines)
    odd = ["", "a=1;\nb=2;", "  "]
    e = mk(exps["dot"], nodes[0], options=odd, indent=3)
    lines = list(e)
    t.c["custom_function_exports"] += 1
    if lines[1:4] != ["   " + o for o in odd]:
        t.violation("C12: indent is not a plain prefix of blank / multi-line option lines", dict(ctx, engine="E2", module=MOD, exporter="dot",
                    custom=True, start=0, stop=[], filtered_out=[], maxlevel=None, names=names, observed=lines[:5]))
    # esc(): recoverable and injective on the whole name alphabet
    from anytree.exporter import DotExporter

    for a in NAMES + ['\\\\"', '"\\', "\\\\", '""']:
        enc = DotExporter.esc(a)
        dec = unquote('"%s"' % enc, 0)
        t.c["evaluations"] += 1
        if dec is None or dec[0] != a or dec[1] != len(enc) + 2:
            t.violation("C12: escaped name %r is not recoverable from %r" % (a, enc), dict(ctx, engine="E2", module=MOD, exporter="dot",
                        start=0, stop=[], filtered_out=[], maxlevel=None, names=names))


class _Abort(Exception):
    pass


def check_histories(t, m, names, known, ctx):
    """Short histories on ONE UniqueDotExporter / DotExporter object."""
    import anytree

    exps = exporters()
    # H0: an export aborted by the user's nodeattrfunc raising at its k-th call (every k), then a complete export of the
    # same exporter object: all lines right, identifiers distinct
    nodes = tree.build(m, tree.default_factory("node"), "topdown", names=names)
    for k in range(m.n):
        state = {"n": 0, "k": k}

        def flaky(nd):
            i = state["n"]
            state["n"] += 1
            if state["k"] is not None and i == state["k"]:
                raise _Abort()
            return None
        e = mk(exps["unique"], nodes[0], nodeattrfunc=flaky)
        try:
            list(e)
            aborted = False
        except _Abort:
            aborted = True
        state["k"], state["n"] = None, 0
        lines = list(e)
        t.c["history_runs"] += 1
        p = parse(lines, "    ", 0)
        ok = aborted and not isinstance(p, str) and len(p["nodes"]) == m.n and len({i for i, _ in p["nodes"]}) == m.n
        if ok:
            ids = [i for i, _ in p["nodes"]]
            exp_edges = sorted((ids[m.par[v]], ids[v]) for v in range(1, m.n))   # pre-order index == declaration order
            ok = sorted((a, b) for a, _, b, _ in p["edges"]) == exp_edges
        if not ok:
            t.violation("C12: export after an export that the user's nodeattrfunc aborted at call #%d is wrong" % k,
                        dict(ctx, engine="E2", module=MOD, exporter="unique", history="aborted-export", names=names, observed=lines,
                             start=0, stop=[], filtered_out=[], maxlevel=None))
            break
    for which in ("unique", "dot"):
        nodes = tree.build(m, tree.default_factory("node"), "topdown", names=names)
        e = mk(exps[which], nodes[0])
        seq = list(e)
        # H2: two interleaved iterations of the same exporter
        it1 = iter(e)
        part = [next(it1) for _ in range(1 + m.n)]
        full2 = list(e)
        rest = list(it1)
        t.c["history_runs"] += 1
        if part + rest != seq or full2 != seq:
            t.violation("C12: interleaved iterations of one %s exporter disturb each other" % which,
                        dict(ctx, engine="E2", module=MOD, exporter=which, history="interleaved", names=names, expected=seq,
                             observed=part + rest, start=0, stop=[], filtered_out=[], maxlevel=None))
        # H3: export, grow the tree in front, export again: identifiers of known nodes must not change
        p1 = parse(seq, "    ", 0)
        new = anytree.Node("fresh")
        nodes[0].children = [new] + list(nodes[0].children)
        seq2 = list(e)
        p2 = parse(seq2, "    ", 0)
        t.c["history_runs"] += 1
        if isinstance(p1, str) or isinstance(p2, str):
            t.violation("C12: output of a re-used exporter cannot be decoded", dict(ctx, engine="E2", module=MOD, exporter=which,
                        history="grow", names=names, observed=seq2, start=0, stop=[], filtered_out=[], maxlevel=None))
        elif which == "unique":
            ids1 = [n[0] for n in p1["nodes"]]
            ids2 = [n[0] for n in p2["nodes"]]
            # new pre-order: root, fresh, then the old nodes 1..n-1
            if len(ids2) != m.n + 1 or len(set(ids2)) != len(ids2) or [ids2[0]] + ids2[2:] != ids1:
                t.violation("C12: UniqueDotExporter identifiers are not stable after the tree grew",
                            dict(ctx, engine="E2", module=MOD, exporter=which, history="grow", names=names, first=seq, observed=seq2,
                                 start=0, stop=[], filtered_out=[], maxlevel=None))
            else:
                # edges of the second export must connect the right (old) identifiers
                m2par = {ids1[i]: (ids1[m.par[i]] if m.par[i] is not None else None) for i in range(m.n)}
                m2par[ids2[1]] = ids1[0]
                got = sorted((a, b) for a, _, b, _ in p2["edges"])
                exp = sorted((p, c) for c, p in m2par.items() if p is not None)
                if got != exp:
                    t.violation("C12: edges after tree growth use wrong identifiers", dict(ctx, engine="E2", module=MOD, exporter=which,
                                history="grow", names=names, first=seq, observed=seq2, start=0, stop=[], filtered_out=[], maxlevel=None))
        # H4: changing filter_/maxlevel of the exporter between iterations takes effect
        nodes = tree.build(m, tree.default_factory("node"), "topdown", names=names)
        e = mk(exps[which], nodes[0])
        list(e)
        last = nodes[m.n - 1]
        e.filter_ = lambda n, last=last: n is not last
        e.maxlevel = 2
        lines = list(e)
        t.c["history_runs"] += 1
        judge_export(t, m, names, which, lines, 0, (), (m.n - 1,), 2, dict(ctx, history="reconfigured"), known)


def job(items, custom, histories, maxk=None):
    t = core.Tally()
    MAXK[0] = maxk
    known = core.load_known_findings("C12")
    for item in items:
        shape, rot = item[:2]
        kind = item[2] if len(item) > 2 else "node"
        core.guard(t, "C12", {"engine": "E2", "module": MOD, "shape": shape, "rot": rot, "kind": kind}, check_shape, t, shape, known, rot,
                   None, custom and kind == "node", histories and kind == "node", kind)
    return t


def _tup(x):
    return tuple(_tup(i) for i in x) if isinstance(x, list) else x


def replay(c):
    t = core.Tally()
    known = core.load_known_findings("C12")
    only = None
    if "exporter" in c and "history" not in c and not c.get("custom"):
        only = (c["exporter"], c["start"], sorted(c["stop"]), sorted(c["filtered_out"]), c["maxlevel"])
    check_shape(t, _tup(c["shape"]), known, c.get("rot", 0), only, kind=c.get("kind", "node"))
    return [v["why"] for v in t.violations]


def run(tier):
    nmax = 5 if tier == "quick" else 6
    items = [(s, r) for s in tree.shapes_upto(nmax - 1) for r in ((0, 3) if tier == "quick" else (0, 3, 7))]
    items += [(s, 1 + k % 5) for k, s in enumerate(tree.plane_trees(nmax))]
    # node classes with value semantics / their own truth value (identifiers and admission must not depend on them)
    items += [(s, 2, kind) for kind in ("eqhash", "falsy", "weird", "tuplenode", "tuple0") for s in tree.shapes_upto(nmax - 1)]
    items += [(s, 9) for s in tree.shapes_upto(nmax - 1)]   # non-string names
    items += [(s, r) for s in tree.shapes_upto(nmax - 1) for r in (10, 11)]   # colliding names
    t = core.Tally()
    jobs = [(MOD, "job", {"items": [it], "custom": True, "histories": True}) for it in items[::-1]]
    if tier == "thorough":
        jobs += [(MOD, "job", {"items": [(s, k % 9)], "custom": False, "histories": False, "maxk": 2}) for k, s in enumerate(tree.plane_trees(nmax + 1))]
    core.run_pool(jobs + [("mc.capacity", "job", {"pid": "C12"}), ("mc.positional", "job", {"pid": "C12"}), ("mc.numbers", "job", {"pid": "C12"})], 0, into=t)
    core.run_pool([(MOD, "job", {"items": c, "custom": False, "histories": False})
                   for c in core.chunks([(s, 1) for s in tree.shapes_upto(3)], core.NPROC)], 1, into=t)
    known = core.load_known_findings("C12")
    cov = {
        "states": t.c["states"], "transitions": t.c["evaluations"], "traces_validated_against_impl": t.c["evaluations"],
        "evaluations": t.c["evaluations"], "distinct_nontrivial": t.c["nontrivial"],
        "rule": "ordered trees up to %d nodes x name rotations (quotes, backslashes, blanks, non-ASCII, empty, colliding) x "
                "start x every stop subset x every filtered-out subset x maxlevel {None,0..height+1} x {DotExporter, "
                "UniqueDotExporter, RenderTreeGraph}: output decoded by a line parser with un-escaper and compared with the "
                "admitted pre-order / admitted links; custom name/attr/edge functions, options, indent, graph/name, "
                "to_dotfile; histories on one exporter object (re-iteration, interleaving, tree growth, reconfiguration); "
                "non-trivial = a restriction removes at least one node" % nmax,
        "bounds": {"max_nodes": nmax, "inputs": len(items)},
    }
    return {"tally": t, "coverage": cov, "known": known,
            "guards": ("unusual_number_calls", "positional_calls", "capacity_checks", "nontrivial", "custom_function_exports", "history_runs"),
            "assumptions": ["bounded sizes and name alphabet", "edge order is not fixed by the statement: edges are compared as a multiset"]}
