"""C01 - parent and children links always describe one consistent forest (E1, invariant on every state)."""
from .. import core, e1run

KINDS = ("mixin", "light", "node", "anynode", "symlink", "mixed", "cross",
         # user classes with their own comparison / truth / container methods are node classes too
         "trap:eq", "trap:light:eq", "trap:all", "trap:light:all")
P2 = ("_pre_detach", "_pre_attach")
P4 = ("_pre_detach", "_pre_attach", "_pre_detach_children", "_pre_attach_children")
CFG = {"read": True, "nonnode": True, "extras": True}


def configs(tier):
    out = []
    for a in (0, 1):
        for kind in KINDS:
            if tier == "quick" and kind not in ("mixin", "light", "cross") and KINDS.index(kind) % 2 != a:
                continue  # quick: the other classes alternate between the two assertion settings
            if tier == "quick":
                deep = (kind, a) in (("mixin", 0), ("light", 1))
                out.append(dict(kind=kind, n=3, cfg=dict(CFG), hidden=kind in ("mixin", "light", "cross"), d=2 if deep else 1,
                                persistent=P2, assertions=a, judge="c01"))
                if kind in ("mixin", "light", "cross") and a == 1:
                    out.append(dict(kind=kind, n=4, cfg=dict(CFG, extras=False), hidden=False, d=0 if kind == "light" else 1,
                                    persistent=P2, assertions=a, judge="c01"))
            else:
                out.append(dict(kind=kind, n=3, cfg=dict(CFG), hidden=True, d=3, persistent=P2, assertions=a, judge="c01"))
                out.append(dict(kind=kind, n=4, cfg=dict(CFG), hidden=kind in ("mixin", "light"), d=2, persistent=P2,
                                assertions=a, judge="c01"))
        # persistent vetoes of the children bracket hooks recurse without bound in the current roll-back
        # code: explored at N=3 under a lowered recursion limit (DESIGN 2.1)
        for kind in ("mixin", "light"):
            out.append(dict(kind=kind, n=3, cfg=dict(CFG, extras=False), hidden=False, d=0, persistent=P4, assertions=a,
                            judge="c01", reclimit=120, name="%s N=3 persistent bracket-hook vetoes (reclimit 120) A=%d" % (kind, a)))
        for kind in (("mixin", "light")[a:a + 1] if tier == "quick" else ("mixin", "light")):
            out.append(dict(kind=kind, n=3, cfg=dict(CFG, extras=False, read=False), hidden=False, d=0, assertions=a, judge="c01",
                            name="%s N=3 two-step: aborted call, then any call A=%d" % (kind, a),
                            two_step=dict(d1=1, persistent1=P2, d2=0 if tier == "quick" else 1, persistent2=() if tier == "quick" else P2,
                                          L=2 if tier == "quick" else 3)))
        if a == 0:
            # "any sequence of parent assignments" includes one issued from inside a hook: at every hook invocation the
            # hook detaches some node instead of returning (with assertions off: the internal assertions are written for
            # hooks that do not touch the tree)
            for kind in ("mixin", "light") + (("node", "symlink") if tier == "thorough" else ()):
                out.append(dict(kind=kind, n=3, cfg=dict(CFG, extras=False, read=False), hidden=False, d=0, assertions=0, judge="c01",
                                reenter=True, name="%s N=3 hooks that detach a node re-entrantly A=0" % kind))
            out.append(dict(kind="mixin", n=4, cfg=dict(CFG, extras=False, read=False, nonnode=False, L=2 if tier == "quick" else 4),
                            hidden=False, d=0, assertions=0, judge="c01", reenter=True,
                            name="mixin N=4 hooks that detach a node re-entrantly A=0"))
        # the class of the exception a hook raises is part of the alphabet (TreeError / LoopError subclasses)
        for kind, fl in (("mixin", "tree"), ("light", "loop")) if tier == "quick" else [(k, f) for k in ("mixin", "light", "node") for f in ("tree", "loop", "value")]:
            out.append(dict(kind=kind, n=3, cfg=dict(CFG, extras=False), hidden=False, d=1 if tier == "quick" else 2, persistent=P2,
                            assertions=a, judge="c01", flavour=fl))
        if tier == "thorough":
            for kind in ("mixin", "light"):
                out.append(dict(kind=kind, n=5, cfg=dict(CFG, extras=False, L=3), hidden=False, d=1, persistent=P2,
                                assertions=a, judge="c01"))
    return out


def run(tier):
    t, summ = e1run.run_configs(configs(tier))
    cov = {
        "states": sum(s["states"] for s in summ),
        "transitions": t.c["transitions"],
        "traces_validated_against_impl": t.c["executions"],
        "evaluations": t.c["executions"],
        "distinct_nontrivial": t.c["nontrivial"],
        "rule": "every (reachable state, operation, fault plan) execution of the real classes; non-trivial = the call "
                "changed at least one link or raised; executions are distinct by construction (state, op, plan)",
        "bounds": summ,
        "exhaustive": True,
    }
    return {
        "tally": t,
        "coverage": cov,
        "guards": ("raised:LoopError", "raised:TreeError", "raised:InjectedFault", "faulted_runs", "changed"),
        "assumptions": [
            "hooks only raise (they do not mutate the tree re-entrantly); exceptions are Exception subclasses",
            "bounded universes: N<=4 (5 in thorough) labelled nodes, at most 2 (3) hook exceptions per call",
        ],
    }
