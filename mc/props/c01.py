"""C01 - parent and children links always describe one consistent forest (E1, invariant on every state)."""
from .. import core, e1run

KINDS = ("mixin", "light", "node", "anynode", "symlink", "mixed", "cross", "symlight",
         # user classes with their own comparison / truth / container methods are node classes too
         "trap:eq", "trap:light:eq", "trap:all", "trap:light:all")
P2 = ("_pre_detach", "_pre_attach")
P4 = ("_pre_detach", "_pre_attach", "_pre_detach_children", "_pre_attach_children")
CFG = {"read": True, "nonnode": True, "extras": True}


def configs(tier):
    out = []
    quick = tier == "quick"

    def add(**kw):
        kw.setdefault("judge", "c01")
        kw.setdefault("hidden", False)
        kw.setdefault("d", 0)
        out.append(kw)

    for a in (0, 1):
        for kind in KINDS:
            main = kind in ("mixin", "light", "cross", "symlight")
            if not main and KINDS.index(kind) % 2 != a:
                continue  # the other classes alternate between the two assertion settings
            deep = (kind, a) in (("mixin", 0), ("light", 1))
            if quick:
                add(kind=kind, n=3, cfg=dict(CFG), hidden=main, d=2 if deep else 1, persistent=P2, assertions=a)
                if main and a == 1:
                    add(kind=kind, n=4, cfg=dict(CFG, extras=False), d=0 if kind == "light" else 1, persistent=P2, assertions=a)
            else:
                add(kind=kind, n=3, cfg=dict(CFG), hidden=True, d=3 if deep else 2, persistent=P2, assertions=a)
                if main:
                    # N=4: hidden-state keys (3 257 states) with single faults, abstract keys (193 forests) with two faults
                    add(kind=kind, n=4, cfg=dict(CFG), hidden=deep, d=1 if deep else 2, persistent=P2, assertions=a)
                else:
                    add(kind=kind, n=4, cfg=dict(CFG, extras=False), d=1, persistent=P2, assertions=a)
        # hooks that READ the whole forest (parent, children of every node) at every invocation - a validating hook
        # typically looks at its new parent's children
        for kind in (("mixin", "light")[a:a + 1] if quick else ("mixin", "light", "node")):
            add(kind=kind, n=3, cfg=dict(CFG, extras=False), d=1, persistent=P2, assertions=a, snap=True,
                name="%s N=3 d<=1+persist, hooks read the forest A=%d" % (kind, a))
            if not quick:
                add(kind=kind, n=4, cfg=dict(CFG, extras=False, nonnode=False), d=1, assertions=a, snap=True,
                    name="%s N=4 d<=1, hooks read the forest A=%d" % (kind, a))
        # persistent vetoes of the children bracket hooks recurse without bound in the current roll-back
        # code: explored at N=3 under a lowered recursion limit (DESIGN 2.1)
        for kind in ("mixin", "light"):
            add(kind=kind, n=3, cfg=dict(CFG, extras=False), persistent=P4, assertions=a, reclimit=120,
                name="%s N=3 persistent bracket-hook vetoes (reclimit 120) A=%d" % (kind, a))
        # histories in which an earlier call was aborted by a hook
        for kind in (("mixin", "light")[a:a + 1] if quick else ("mixin", "light")):
            add(kind=kind, n=3, cfg=dict(CFG, extras=False, read=False), assertions=a,
                name="%s N=3 two-step: aborted call, then any call A=%d" % (kind, a),
                two_step=dict(d1=1, persistent1=P2, d2=0 if quick else 1, persistent2=() if quick else P2, L=2 if quick else 3))
        if a == 0:
            # "any sequence of parent assignments" includes one issued from inside a hook: at every hook invocation the
            # hook detaches some node instead of returning (assertions off: the internal assertions are written for
            # hooks that do not touch the tree)
            for kind in ("mixin", "light") + (() if quick else ("node", "symlink", "trap:light:eq")):
                add(kind=kind, n=3, cfg=dict(CFG, extras=False, read=False), assertions=0, reenter=True,
                    name="%s N=3 hooks that detach a node re-entrantly A=0" % kind)
            for kind in ("mixin",) if quick else ("mixin", "light"):
                add(kind=kind, n=4, cfg=dict(CFG, extras=False, read=False, nonnode=False, L=2 if quick else 4), assertions=0,
                    reenter=True, name="%s N=4 hooks that detach a node re-entrantly A=0" % kind)
        # resource faults: the call runs out of stack after k more frames, for every k (RecursionError can strike at any
        # call inside the library); classes without harness hooks, so that the library's own calls are the deepest ones
        for kind in ("bare", "bare:light"):
            add(kind=kind, n=3, cfg=dict(CFG, extras=False, read=False), assertions=a, stack=True,
                name="%s N=3 stack exhaustion after k frames, k=1..39 A=%d" % (kind, a))
            if not quick:
                add(kind=kind, n=4, cfg=dict(CFG, extras=False, read=False, nonnode=False, L=3), assertions=a, stack=True,
                    name="%s N=4 stack exhaustion after k frames A=%d" % (kind, a))
        # the class of the exception a hook raises is part of the alphabet (TreeError / LoopError subclasses ...)
        flav = (("mixin", "tree"), ("light", "loop"), ("mixin", "assert"), ("light", "stopiter")) if quick else [
            (k, f) for k in ("mixin", "light", "node") for f in ("tree", "loop", "value", "attr", "assert", "recursion", "stopiter", "key")]
        for kind, fl in flav:
            add(kind=kind, n=3, cfg=dict(CFG, extras=False), d=1 if quick else 2, persistent=P2, assertions=a, flavour=fl)
        if not quick:
            add(kind=("mixin", "light")[a], n=5, cfg=dict(CFG, extras=False, L=3), d=1, persistent=P2, assertions=a)
            add(kind=("light", "mixin")[a], n=5, cfg=dict(CFG, extras=False, L=4), d=0, assertions=a)
    return out


def run(tier):
    t, summ = e1run.run_configs(configs(tier))
    cov = {
        "states": sum(s["states"] for s in summ),
        "transitions": t.c["transitions"],
        "traces_validated_against_impl": t.c["executions"],
        "evaluations": t.c["executions"],
        "distinct_nontrivial": t.c["nontrivial"],
        "rule": "every (reachable state, operation, fault plan) execution of the real classes; non-trivial = the call "
                "changed at least one link or raised; executions are distinct by construction (state, op, plan)",
        "bounds": summ,
        "exhaustive": True,
    }
    return {
        "tally": t,
        "coverage": cov,
        "guards": ("raised:LoopError", "raised:TreeError", "raised:InjectedFault", "faulted_runs", "changed", "stack_exhausted_runs"),
        "assumptions": [
            "hooks only raise (they do not mutate the tree re-entrantly); exceptions are Exception subclasses",
            "bounded universes: N<=4 (5 in thorough) labelled nodes, at most 2 (3) hook exceptions per call",
        ],
    }
