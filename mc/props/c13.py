"""C13 - Mermaid export declares exactly the admitted nodes and only edges between them
(E2: as C12 for MermaidExporter, decoded by a line parser; histories on one exporter object)."""
import os
import re
import tempfile

from .. import core, tree
from .c12 import NAMES, names_for, reference, unquote

MOD = "mc.props.c13"
MAXK = [None]   # bound on the size of stop / filtered-out subsets (None: all subsets)
RE_NODE = re.compile(r'^(N\d+)\[(".*")\]$', re.S)
RE_EDGE = re.compile(r"^(N\d+)-->(N\d+)$")


def parse_default(lines, indent, noptions, header="graph TD"):
    if not lines:
        return "no output"
    if lines[0] != header:
        return "wrong header %r" % lines[0]
    nodes, edges = [], []
    for ln in lines[1 + noptions:]:
        if not ln.startswith(indent):
            return "line %r lacks the indent" % ln
        body = ln[len(indent):]
        mn = RE_NODE.match(body)
        me = RE_EDGE.match(body)
        if mn:
            if edges:
                return "node line after an edge line: %r" % ln
            lab = unquote(mn.group(2), 0)
            if lab is None or lab[1] != len(mn.group(2)):
                return "label of %r cannot be un-escaped" % ln
            nodes.append((mn.group(1), lab[0]))
        elif me:
            edges.append((me.group(1), me.group(2)))
        else:
            return "unparsable line %r" % ln
    return {"options": lines[1:1 + noptions], "nodes": nodes, "edges": edges}


def judge_default(t, m, names, lines, start, stopset, hidden, ml, ctx, indent="", options=(), ids_before=None):
    declared, edges, _ = reference(m, start, stopset, hidden, ml)
    p = parse_default(lines, indent, len(options))
    why = None
    ids = None
    if isinstance(p, str):
        why = "output cannot be decoded: " + p
    elif p["options"] != [indent + o for o in options]:
        why = "option lines differ"
    else:
        got_ids = [a for a, _ in p["nodes"]]
        if len(got_ids) != len(declared):
            why = "declared nodes differ from the admitted pre-order"
        elif len(set(got_ids)) != len(got_ids):
            why = "two declared nodes share an identifier"
        elif [lab for _, lab in p["nodes"]] != [str(names[v]) for v in declared]:
            why = "declared nodes / decoded labels differ from the admitted pre-order"
        else:
            ids = dict(zip(declared, got_ids))
            rev = {i: v for v, i in ids.items()}
            got_edges = [(rev.get(a, "?" + a), rev.get(b, "?" + b)) for a, b in p["edges"]]
            if sorted(got_edges, key=repr) != sorted(edges, key=repr):
                bad = [e for e in got_edges if e not in edges]
                if bad:
                    why = "edge line(s) %r refer to an undeclared node / a pair that is not admitted" % (bad[:3],)
                else:
                    why = "admitted link(s) %r have no edge line" % ([e for e in edges if e not in got_edges][:3],)
            if why is None and ids_before:
                for v, i in ids.items():
                    if v in ids_before and ids_before[v] != i:
                        why = "identifier of node %d changed between iterations (%s -> %s)" % (v, ids_before[v], i)
    t.c["evaluations"] += 1
    if stopset or hidden or (ml is not None and ml <= m.height(start)):
        t.c["nontrivial"] += 1
    if stopset and any(m.par[s] in declared for s in stopset if m.par[s] is not None):
        t.c["stopped_child_of_declared_parent"] += 1
    if why:
        c = dict(ctx)
        c.update({"engine": "E2", "module": MOD, "start": start, "stop": sorted(stopset), "filtered_out": sorted(hidden),
                  "maxlevel": ml, "names": names, "observed": lines, "expected": {"declared": declared, "edges": edges}})
        t.violation("C13: " + why, c)
    return ids


def check_shape(t, shape, rot=0, only=None, extras=True, kind="node"):
    from anytree.exporter import MermaidExporter

    m = tree.Model.from_shape(shape)
    names = names_for(m, rot)
    nodes = tree.build(m, tree.default_factory(kind), "topdown", names=names)
    ctx = {"shape": shape, "rot": rot, "kind": kind}
    for start in range(m.n):
        t.c["states"] += 1
        sub = m.pre(start)
        h = m.height(start)
        for stopset in core.powerset(sub, MAXK[0]):
            sids = frozenset(id(nodes[v]) for v in stopset)
            stop = (lambda n, s=sids: id(n) in s) if stopset else None
            for hidden in core.powerset(sub, MAXK[0]):
                hids = frozenset(id(nodes[v]) for v in hidden)
                filt = (lambda n, s=hids: id(n) not in s) if hidden else None
                for ml in [None] + list(range(0, h + 2)):
                    if only and (start, sorted(stopset), sorted(hidden), ml) != only:
                        continue
                    e = MermaidExporter(nodes[start], filter_=filt, stop=stop, maxlevel=ml)
                    lines = list(e)
                    t.obs((shape, rot, start, stopset, hidden, ml, lines))
                    ids = judge_default(t, m, names, lines, start, stopset, hidden, ml, ctx)
                    if ids is not None and (len(stopset) + len(hidden)) % 2 == 0:
                        again = list(e)
                        if again != lines:
                            t.violation("C13: second iteration of the same exporter differs",
                                        dict(ctx, engine="E2", module=MOD, start=start, stop=sorted(stopset), filtered_out=sorted(hidden),
                                             maxlevel=ml, names=names, first=lines, observed=again))
    if only or not extras:
        return
    idm = tree.IdMap(nodes)
    # custom functions, options, indent: verbatim
    # identifiers are the user's business: whatever nodenamefunc returns (quotes, backslashes, blanks) appears verbatim
    # (several nodes may get the SAME identifier from the user's function: every admitted node still gets its line)
    nm = lambda v: ("id%d", 'i"d%d', "i\\d%d", "i d%d", "id%d")[v % 5] % (v if v < 3 else v % 2)  # noqa
    namef = lambda nd: nm(idm(nd))  # noqa
    # an empty string is a legal result (a node declared by its identifier only) and must appear verbatim
    nodef = lambda nd: ('("%s")' % nd.name) if idm(nd) % 3 else ""  # noqa
    edgef = lambda a, b: ("--%d-->" % idm(b) if idm(b) % 2 else "---") if idm(b) % 3 else ""  # noqa
    options = ["%% comment", "classDef x fill:#f9f;"]
    for indent in (0, 3):
        for start in (0, m.n - 1):
            e = MermaidExporter(nodes[start], graph="flowchart", name="LR", options=options, indent=indent, nodenamefunc=namef,
                                nodefunc=nodef, edgefunc=edgef)
            lines = list(e)
            ind = " " * indent
            declared, edges, _ = reference(m, start, (), (), None)
            exp = ["flowchart LR"] + [ind + o for o in options] + [ind + nm(v) + (('("%s")' % names[v]) if v % 3 else "") for v in declared]
            exp_edges = [ind + nm(p) + (("--%d-->" % c if c % 2 else "---") if c % 3 else "") + nm(c) for p, c in edges]
            t.c["evaluations"] += 1
            t.c["custom_function_exports"] += 1
            if lines[: len(exp)] != exp or sorted(lines[len(exp):]) != sorted(exp_edges):
                t.violation("C13: custom functions / options / indent do not appear verbatim",
                            dict(ctx, engine="E2", module=MOD, custom=True, indent=indent, start=start, names=names,
                                 expected=exp + exp_edges, observed=lines, stop=[], filtered_out=[], maxlevel=None))
    # options may be any iterable; custom functions are asked about admitted nodes / admitted pairs only
    hid = m.n - 1

    def guardf(f):
        def g(*nds):
            if any(idm(x) == hid for x in nds):
                raise RuntimeError("custom function called for the filtered-out node %d" % hid)
            return f(*nds)
        return g
    if m.n > 1:
        for opts in (tuple(options), (o for o in options)):
            e = MermaidExporter(nodes[0], graph="flowchart", name="LR", options=opts, indent=1, nodenamefunc=guardf(namef),
                                nodefunc=guardf(nodef), edgefunc=guardf(edgef), filter_=lambda n: idm(n) != hid)
            try:
                lines = list(e)
            except RuntimeError as exc:
                lines = ["<raised: %s>" % exc]
            declared, edges, _ = reference(m, 0, (), (hid,), None)
            exp = ["flowchart LR"] + [" " + o for o in options] + [" " + nm(v) + (('("%s")' % names[v]) if v % 3 else "") for v in declared]
            exp_edges = [" " + nm(p) + (("--%d-->" % c if c % 2 else "---") if c % 3 else "") + nm(c) for p, c in edges]
            t.c["evaluations"] += 1
            t.c["custom_function_exports"] += 1
            if lines[: len(exp)] != exp or sorted(lines[len(exp):]) != sorted(exp_edges):
                t.violation("C13: options given as tuple/generator or custom functions with a filter do not give the specified lines",
                            dict(ctx, engine="E2", module=MOD, custom=True, indent=1, start=0, names=names, expected=exp + exp_edges,
                                 observed=lines, stop=[], filtered_out=[hid], maxlevel=None))
    # indent is a plain prefix of every emitted piece, whatever the piece contains (blank option, several physical lines)
    odd_options = ["", "%% two\n%% physical lines", "   "]
    for ind_n in (2,):
        e = MermaidExporter(nodes[0], options=odd_options, indent=ind_n, nodenamefunc=namef,
                            nodefunc=lambda nd: '["%s\nsecond line"]' % nd.name, edgefunc=lambda a, b: "-- x\ny -->")
        lines = list(e)
        ind = " " * ind_n
        declared, edges, _ = reference(m, 0, (), (), None)
        exp = ["graph TD"] + [ind + o for o in odd_options] + [ind + nm(v) + '["%s\nsecond line"]' % names[v] for v in declared]
        exp_edges = [ind + nm(p) + "-- x\ny -->" + nm(c) for p, c in edges]
        t.c["evaluations"] += 1
        t.c["custom_function_exports"] += 1
        if lines[: len(exp)] != exp or sorted(lines[len(exp):]) != sorted(exp_edges):
            t.violation("C13: indent is not a plain prefix of blank / multi-line options and function results",
                        dict(ctx, engine="E2", module=MOD, custom=True, indent=ind_n, start=0, names=names, expected=exp + exp_edges,
                             observed=lines, stop=[], filtered_out=[], maxlevel=None))
    # to_file fence: exactly the lines of the iteration (also lines that are blank or end in blanks / tabs)
    for kw in ({}, {"indent": 2, "options": ["", "%% trailing blanks  ", "\t"], "nodefunc": lambda nd: '["%s"] ' % nd.name, "name": ""}):
        e = MermaidExporter(nodes[0], **kw)
        with tempfile.TemporaryDirectory(prefix="verif-c13-") as d:
            fn = os.path.join(d, "t.md")
            e.to_file(fn)
            with open(fn, encoding="utf-8", newline="") as f:
                text = f.read()
        if text != "```mermaid\n" + "".join(l + "\n" for l in list(MermaidExporter(nodes[0], **kw))) + "```":
            t.violation("C13: to_file does not wrap the same lines in a mermaid fence",
                        dict(ctx, engine="E2", module=MOD, names=names, observed=text, start=0, stop=[], filtered_out=[], maxlevel=None,
                             to_file_options=sorted(kw)))
        t.c["evaluations"] += 1
    # esc
    for a in NAMES + ['\\\\"', '"\\', "\\\\", '""']:
        enc = MermaidExporter.esc(a)
        dec = unquote('"%s"' % enc, 0)
        if dec is None or dec[0] != a or dec[1] != len(enc) + 2:
            t.violation("C13: escaped label %r is not recoverable from %r" % (a, enc),
                        dict(ctx, engine="E2", module=MOD, names=names, start=0, stop=[], filtered_out=[], maxlevel=None))
    check_histories(t, m, names, ctx)
    t.sample({"shape": shape, "names": names, "example": list(MermaidExporter(nodes[0]))}, cap=1)


def check_histories(t, m, names, ctx):
    import anytree
    from anytree.exporter import MermaidExporter

    nodes = tree.build(m, tree.default_factory("node"), "topdown", names=names)
    # an export aborted by the user's nodefunc raising at its k-th call (every k), then a complete export of the same object
    for k in range(m.n):
        state = {"n": 0, "k": k}

        def flaky(nd):
            i = state["n"]
            state["n"] += 1
            if state["k"] is not None and i == state["k"]:
                raise KeyError("user nodefunc failed")
            return '["%s"]' % MermaidExporter.esc(nd.name)
        e = MermaidExporter(nodes[0], nodefunc=flaky)
        try:
            list(e)
            aborted = False
        except KeyError:
            aborted = True
        state["k"], state["n"] = None, 0
        lines = list(e)
        t.c["history_runs"] += 1
        if not aborted or judge_default(t, m, names, lines, 0, (), (), None, dict(ctx, history="aborted-export-%d" % k)) is None:
            if not aborted:
                t.violation("C13: exception of the user's nodefunc was swallowed", dict(ctx, engine="E2", module=MOD, history="aborted-export",
                            names=names, observed=lines, start=0, stop=[], filtered_out=[], maxlevel=None))
            break
    # a full export, an iteration started and abandoned after k lines (every k), another full export: same lines
    e = MermaidExporter(nodes[0])
    first = list(e)
    for k in range(1, len(first) + 1):
        it = iter(e)
        for _ in range(k):
            next(it)
        del it
        again = list(e)
        t.c["history_runs"] += 1
        if again != first:
            t.violation("C13: export after an iteration of the same exporter that was abandoned after %d lines differs from the export before" % k,
                        dict(ctx, engine="E2", module=MOD, history="abandoned-iteration-%d" % k, names=names, first=first, observed=again,
                             start=0, stop=[], filtered_out=[], maxlevel=None))
            break
    e = MermaidExporter(nodes[0])
    seq = list(e)
    # interleaved iterations
    it1 = iter(e)
    part = [next(it1) for _ in range(1 + m.n)]
    full2 = list(e)
    rest = list(it1)
    t.c["history_runs"] += 1
    if part + rest != seq or full2 != seq:
        t.violation("C13: interleaved iterations of one exporter disturb each other",
                    dict(ctx, engine="E2", module=MOD, history="interleaved", names=names, expected=seq, observed=part + rest,
                         start=0, stop=[], filtered_out=[], maxlevel=None))
    ids1 = judge_default(t, m, names, seq, 0, (), (), None, dict(ctx, history="first"))
    # grow the tree in front, export again
    new = anytree.Node("fresh")
    nodes[0].children = [new] + list(nodes[0].children)
    seq2 = list(e)
    p2 = parse_default(seq2, "", 0)
    t.c["history_runs"] += 1
    if isinstance(p2, str) or ids1 is None:
        t.violation("C13: output after tree growth cannot be decoded", dict(ctx, engine="E2", module=MOD, history="grow", names=names,
                    observed=seq2, start=0, stop=[], filtered_out=[], maxlevel=None))
    else:
        ids2 = [a for a, _ in p2["nodes"]]
        old = [ids1[v] for v in m.pre(0)]
        if len(set(ids2)) != len(ids2) or len(ids2) != m.n + 1 or [ids2[0]] + ids2[2:] != old:
            t.violation("C13: identifiers are not stable after the tree grew", dict(ctx, engine="E2", module=MOD, history="grow",
                        names=names, first=seq, observed=seq2, start=0, stop=[], filtered_out=[], maxlevel=None))
        else:
            par = {ids1[i]: ids1[m.par[i]] for i in range(m.n) if m.par[i] is not None}
            par[ids2[1]] = ids1[0]
            if sorted(p2["edges"]) != sorted((p, c) for c, p in par.items()):
                t.violation("C13: edges after tree growth use wrong identifiers", dict(ctx, engine="E2", module=MOD, history="grow",
                            names=names, first=seq, observed=seq2, start=0, stop=[], filtered_out=[], maxlevel=None))
    # export, detach a node that was numbered early, attach a new one, export again: identifiers stay distinct, known
    # nodes keep theirs
    if m.n >= 3:
        hn = ["h%d" % i for i in range(m.n)]
        nodes = tree.build(m, tree.default_factory("node"), "topdown", names=hn)
        e = MermaidExporter(nodes[0])
        p1 = parse_default(list(e), "", 0)
        victim = 1
        nodes[victim].parent = None
        extra = anytree.Node("hx", parent=nodes[0])
        seq2 = list(e)
        p2 = parse_default(seq2, "", 0)
        t.c["history_runs"] += 1
        if isinstance(p1, str) or isinstance(p2, str):
            t.violation("C13: output after detach+attach cannot be decoded", dict(ctx, engine="E2", module=MOD, history="detach-attach",
                        names=hn, observed=seq2, start=0, stop=[], filtered_out=[], maxlevel=None))
        else:
            id1 = {lab: i for i, lab in p1["nodes"]}
            id2 = {lab: i for i, lab in p2["nodes"]}
            ids2 = [i for i, _ in p2["nodes"]]
            gone = set(hn[v] for v in m.pre(victim))
            want_labels = [hn[v] for v in m.pre(0) if hn[v] not in gone] + ["hx"]
            why = None
            if [lab for _, lab in p2["nodes"]] != want_labels:
                why = "declared nodes after detach+attach differ from the tree's pre-order"
            elif len(set(ids2)) != len(ids2):
                why = "two declared nodes share an identifier after detach+attach on one exporter"
            elif any(id1[lab] != id2[lab] for lab in id2 if lab in id1):
                why = "identifier of a known node changed after detach+attach"
            else:
                par = {hn[v]: hn[m.par[v]] for v in range(1, m.n) if hn[v] not in gone}
                par["hx"] = hn[0]
                if sorted(p2["edges"]) != sorted((id2[p], id2[c]) for c, p in par.items()):
                    why = "edges after detach+attach do not connect the declared identifiers of the links"
            if why:
                t.violation("C13: " + why, dict(ctx, engine="E2", module=MOD, history="detach-attach", names=hn, observed=seq2,
                                                start=0, stop=[], filtered_out=[], maxlevel=None))
    # reconfigure filter_ / stop / maxlevel between iterations of one exporter
    nodes = tree.build(m, tree.default_factory("node"), "topdown", names=names)
    for mode in ("filter", "stop", "attr"):
        e = MermaidExporter(nodes[0], filter_=(lambda n: not getattr(n, "hide", False)) if mode == "attr" else None)
        ids1 = judge_default(t, m, names, list(e), 0, (), (), None, dict(ctx, history="before-" + mode))
        last = nodes[m.n - 1]
        if mode == "filter":
            e.filter_ = lambda n, last=last: n is not last
            exp = ((), (m.n - 1,))
        elif mode == "stop":
            e.stop = lambda n, last=last: n is last
            exp = ((m.n - 1,), ())
        else:
            last.hide = True
            exp = ((), (m.n - 1,))
        lines = list(e)
        t.c["history_runs"] += 1
        judge_default(t, m, names, lines, 0, exp[0], exp[1], None, dict(ctx, history="reconfigured-" + mode), ids_before=ids1)
        if mode == "attr":
            del last.hide


def job(items, extras, maxk=None):
    t = core.Tally()
    MAXK[0] = maxk
    for item in items:
        shape, rot = item[:2]
        kind = item[2] if len(item) > 2 else "node"
        core.guard(t, "C13", {"engine": "E2", "module": MOD, "shape": shape, "rot": rot, "kind": kind}, check_shape, t, shape, rot, None,
                   extras and kind == "node", kind)
    return t


def _tup(x):
    return tuple(_tup(i) for i in x) if isinstance(x, list) else x


def replay(c):
    t = core.Tally()
    only = None
    if "history" not in c and not c.get("custom") and "start" in c and "observed" in c and isinstance(c.get("stop"), list) and "first" not in c:
        only = (c["start"], sorted(c["stop"]), sorted(c["filtered_out"]), c["maxlevel"])
    check_shape(t, _tup(c["shape"]), c.get("rot", 0), only, kind=c.get("kind", "node"))
    return [v["why"] for v in t.violations]


def run(tier):
    nmax = 5 if tier == "quick" else 6
    items = [(s, r) for s in tree.shapes_upto(nmax - 1) for r in ((0, 3) if tier == "quick" else (0, 3, 7))]
    items += [(s, 1 + k % 5) for k, s in enumerate(tree.plane_trees(nmax))]
    items += [(s, 2, kind) for kind in ("eqhash", "falsy", "weird", "tuplenode", "tuple0") for s in tree.shapes_upto(nmax - 1)]
    items += [(s, 9) for s in tree.shapes_upto(nmax - 1)]   # non-string names
    t = core.Tally()
    jobs = [(MOD, "job", {"items": [it], "extras": True}) for it in items[::-1]]
    if tier == "thorough":
        jobs += [(MOD, "job", {"items": [(s, k % 9)], "extras": False, "maxk": 2}) for k, s in enumerate(tree.plane_trees(nmax + 1))]
    core.run_pool(jobs + [("mc.capacity", "job", {"pid": "C13"}), ("mc.positional", "job", {"pid": "C13"}), ("mc.numbers", "job", {"pid": "C13"})], 0, into=t)
    core.run_pool([(MOD, "job", {"items": c, "extras": False}) for c in core.chunks([(s, 1) for s in tree.shapes_upto(3)], core.NPROC)], 1, into=t)
    cov = {
        "states": t.c["states"], "transitions": t.c["evaluations"], "traces_validated_against_impl": t.c["evaluations"],
        "evaluations": t.c["evaluations"], "distinct_nontrivial": t.c["nontrivial"],
        "rule": "ordered trees up to %d nodes x name rotations x start x every stop subset x every filtered-out subset x "
                "maxlevel {None,0..height+1}: MermaidExporter output decoded (ids, un-escaped labels, edges) and compared with "
                "the admitted pre-order / admitted links; custom functions, options, indent verbatim; to_file fence; histories "
                "on one exporter object (re-iteration, interleaving, tree growth, filter_/stop/attribute change); "
                "non-trivial = a restriction removes at least one node" % nmax,
        "bounds": {"max_nodes": nmax, "inputs": len(items)},
    }
    return {"tally": t, "coverage": cov,
            "guards": ("unusual_number_calls", "positional_calls", "capacity_checks", "nontrivial", "custom_function_exports", "history_runs", "stopped_child_of_declared_parent"),
            "assumptions": ["bounded sizes and name alphabet", "edge order is not fixed by the statement: edges are compared as a multiset"]}
