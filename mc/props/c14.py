"""C14 - search functions return the filtered pre-order and enforce their count bounds
(E2: shapes x attribute assignments x start x value x filter/stop subsets x maxlevel x count-bound grid,
search and cachedsearch, positional and keyword forms)."""
import itertools

from .. import core, tree

MOD = "mc.props.c14"
ABSENT = "<absent>"


def outcome(fn, *a, **kw):
    from anytree import CountError

    try:
        r = fn(*a, **kw)
        return ("ok", r)
    except CountError as exc:
        return ("CountError", str(exc))


def outcome_any(call):
    """Like outcome(), for calls that must not raise anything at all."""
    try:
        return outcome(call)
    except Exception as exc:  # noqa: BLE001 - the exception type is the observation
        return (type(exc).__name__, str(exc))


def bound_grid(k):
    vals = sorted({None, 0, k - 1, k, k + 1} - {-1}, key=lambda v: (-1 if v is None else v))
    return [(a, b) for a in vals for b in vals]


def expect_findall(matches, mn, mx):
    k = len(matches)
    if mn is not None and k < mn:
        return ("CountError", (mn, k))
    if mx is not None and k > mx:
        return ("CountError", (mx, k))
    return ("ok", matches)


def judge(t, what, exp, got, idm, ctx):
    t.c["evaluations"] += 1
    why = None
    if exp[0] == "ok":
        if got[0] != "ok":
            why = "%s raised %s although %s" % (what, got[0], "the count is within bounds" if got[0] == "CountError" else "nothing may be raised")
        else:
            val = got[1]
            if exp[1] is None or isinstance(exp[1], int):
                if idm(val) != exp[1]:
                    why = "%s returned the wrong node" % what
            elif not isinstance(val, tuple) or idm.seq(val) != exp[1]:
                why = "%s result differs from the filtered pre-order" % what
    else:
        t.c["count_errors_expected"] += 1
        if got[0] != "CountError":
            why = "%s must raise CountError" % what
        else:
            a, b = exp[1]
            import re

            nums = re.findall(r"-?\d+", got[1].split(" (")[0].split(" [")[0])
            if str(a) not in nums or str(b) not in nums:
                why = "%s CountError message does not name both numbers (%s, %s)" % (what, a, b)
    t.obs((ctx, what, exp[0], got[0] if got[0] != "ok" else (idm.seq(got[1]) if isinstance(got[1], tuple) else idm(got[1]))))
    if why:
        c = dict(ctx)
        c.update({"engine": "E2", "module": MOD, "query": what, "expected": exp,
                  "observed": got[1] if got[0] != "ok" else (idm.seq(got[1]) if isinstance(got[1], tuple) else idm(got[1]))})
        t.violation("C14: " + why, c)


def check_shape(t, shape, assignments=None, full=True, kind="user"):
    from anytree import cachedsearch, search

    m = tree.Model.from_shape(shape)
    names = ["%d%%d" % i for i in range(m.n)]   # a '%' in every repr: error messages are built from reprs
    dom = (ABSENT, "x", None)
    if assignments is None:
        assignments = itertools.product(dom, repeat=m.n)
    for tags in assignments:
        nodes = tree.build(m, tree.default_factory(kind), "topdown", names=names)
        for nd, tg in zip(nodes, tags):
            if tg != ABSENT:
                nd.tag = tg
        idm = tree.IdMap(nodes)
        for start in range(m.n):
            t.c["states"] += 1
            h = m.height(start)
            for ml in [None, 0, 1] + ([2] if h >= 2 else []) + [h + 1]:
                base, _ = m.restricted(start, frozenset(), frozenset(), ml)
                pre = base["pre"]
                for value in ("x", None, "q"):
                    matches = [v for v in pre if tags[v] != ABSENT and tags[v] == value]
                    k = len(matches)
                    ctx = {"shape": shape, "kind": kind, "tags": list(tags), "start": start, "maxlevel": ml, "value": value}
                    if k and any(tg == ABSENT for tg in tags):
                        t.c["missing_attribute_skipped"] += 1
                    for mn, mx in bound_grid(k):
                        exp = expect_findall(matches, mn, mx)
                        if exp[0] != "ok" or k:
                            t.c["nontrivial"] += 1
                        if mx == 0 and k:
                            t.c["maxcount_zero_with_matches"] += 1
                        got = outcome(search.findall_by_attr, nodes[start], value, name="tag", maxlevel=ml, mincount=mn, maxcount=mx)
                        judge(t, "findall_by_attr(mincount=%s,maxcount=%s)" % (mn, mx), exp, got, idm, ctx)
                        got2 = outcome(cachedsearch.findall_by_attr, nodes[start], value, "tag", ml, mn, mx)
                        judge(t, "cachedsearch.findall_by_attr(mincount=%s,maxcount=%s)" % (mn, mx), exp, got2, idm, ctx)
                        if _norm(got, idm) != _norm(got2, idm):
                            t.violation("C14: cachedsearch.findall_by_attr disagrees with search.findall_by_attr", dict(ctx, engine="E2", module=MOD))
                    # find_by_attr: None / the node / CountError
                    expf = ("ok", None) if k == 0 else (("ok", matches[0]) if k == 1 else ("CountError", (1, k)))
                    judge(t, "find_by_attr", expf, outcome(search.find_by_attr, nodes[start], value, name="tag", maxlevel=ml), idm, ctx)
                    judge(t, "cachedsearch.find_by_attr", expf, outcome(cachedsearch.find_by_attr, nodes[start], value, "tag", ml), idm, ctx)
                if not full:
                    continue
                # default attribute name: "name"
                nm = names[start]
                judge(t, "find_by_attr(default name)", ("ok", start if ml is None or ml > 0 else None),
                      outcome(search.find_by_attr, nodes[start], nm, maxlevel=ml), idm, {"shape": shape, "start": start, "maxlevel": ml})
        if not full:
            continue
        # findall / find with filter_ and stop subsets (<= 2 nodes each); tags play no role here
        if tags != tuple(dom[0] for _ in range(m.n)):
            continue
        for start in range(m.n):
            sub = m.pre(start)
            h = m.height(start)
            for stopset in core.powerset(sub, 2):
                sids = frozenset(id(nodes[v]) for v in stopset)
                stop = (lambda n, s=sids: id(n) in s) if stopset else None
                for hidden in core.powerset(sub, 2):
                    hids = frozenset(id(nodes[v]) for v in hidden)
                    filt = (lambda n, s=hids: id(n) not in s) if hidden else None
                    for ml in (None, 0, 1, h + 1):
                        pre = m.restricted(start, frozenset(stopset), frozenset(hidden), ml)[0]["pre"]
                        k = len(pre)
                        ctx = {"shape": shape, "kind": kind, "start": start, "stop": list(stopset), "filtered_out": list(hidden), "maxlevel": ml}
                        for mn, mx in bound_grid(k):
                            exp = expect_findall(pre, mn, mx)
                            t.c["nontrivial"] += 1 if (exp[0] != "ok" or stopset or hidden) else 0
                            got = outcome(search.findall, nodes[start], filter_=filt, stop=stop, maxlevel=ml, mincount=mn, maxcount=mx)
                            judge(t, "findall(mincount=%s,maxcount=%s)" % (mn, mx), exp, got, idm, ctx)
                            got2 = outcome(cachedsearch.findall, nodes[start], filt, stop, ml, mn, mx)
                            judge(t, "cachedsearch.findall(mincount=%s,maxcount=%s)" % (mn, mx), exp, got2, idm, ctx)
                        expf = ("ok", None) if k == 0 else (("ok", pre[0]) if k == 1 else ("CountError", (1, k)))
                        judge(t, "find", expf, outcome(search.find, nodes[start], filt, stop, ml), idm, ctx)
                        judge(t, "cachedsearch.find", expf, outcome(cachedsearch.find, nodes[start], filter_=filt, stop=stop, maxlevel=ml), idm, ctx)
    if full and kind == "user":
        check_attribute_kinds(t, shape, m)
        check_call_mutate_call(t, shape, m)
    t.sample({"shape": shape, "tags": ["x", None, ABSENT][: m.n], "query": "findall_by_attr(start, None, name='tag', mincount=0, maxcount=0)"}, cap=1)


def check_attribute_kinds(t, shape, m):
    """'attribute `name` exists' also means: a property, a class-level default, a slot, an attribute forwarded by a
    SymlinkNode - anything getattr() finds."""
    import anytree
    from anytree import cachedsearch, search

    class Kinded(anytree.NodeMixin):
        kind = "k"  # class-level default

        def __init__(self, name):
            self.name = name

    for label, factory in (("user class with class-level default", lambda i: Kinded("n%d" % i)),
                           ("LightNodeMixin with __slots__", lambda i: tree.plain_classes()["light"]("n%d" % i))):
        nodes = [factory(i) for i in range(m.n)]
        for i in range(m.n):
            if m.par[i] is not None:
                nodes[i].parent = nodes[m.par[i]]
        idm = tree.IdMap(nodes)
        for start in range(m.n):
            pre = m.pre(start)
            ctx = {"shape": shape, "start": start, "node_class": label}
            queries = [("is_leaf", True, [v for v in pre if not m.ch[v]]), ("depth", 1, [v for v in pre if m.depth(v) == 1]),
                       ("name", "n%d" % pre[-1], [pre[-1]]), ("nope", None, [])]
            if label.startswith("user"):
                queries.append(("kind", "k", pre))
            for name, value, exp in queries:
                for mod, modname in ((search, "search"), (cachedsearch, "cachedsearch")):
                    got = outcome(mod.findall_by_attr, nodes[start], value, name=name)
                    judge(t, "%s.findall_by_attr(name=%r)" % (modname, name), ("ok", exp), got, idm, ctx)
                    t.c["attribute_kind_queries"] += 1
    # "equals value" is ==, nothing else: a NaN stored on a node does not equal the very same NaN object
    nan = float("nan")
    nodes = [anytree.AnyNode(score=(nan if i % 2 == 0 else 1.5)) for i in range(m.n)]
    for i in range(m.n):
        if m.par[i] is not None:
            nodes[i].parent = nodes[m.par[i]]
    idm = tree.IdMap(nodes)
    for mod, modname in ((search, "search"), (cachedsearch, "cachedsearch")):
        judge(t, "%s.findall_by_attr(value=<the same nan object>)" % modname, ("ok", []),
              outcome(mod.findall_by_attr, nodes[0], nan, name="score"), idm, {"shape": shape, "node_class": "AnyNode with NaN attribute"})
        judge(t, "%s.find_by_attr(value=<the same nan object>)" % modname, ("ok", None),
              outcome(mod.find_by_attr, nodes[0], nan, name="score"), idm, {"shape": shape, "node_class": "AnyNode with NaN attribute"})
        t.c["attribute_kind_queries"] += 2
    # "equals value" is Python's ==, across kinds too: True == 1 == 1.0, False == 0, "1" != 1, (1,) == (1,), [] == []
    pool = [True, 1, 1.0, False, 0, "1", (1,), None, [], 0.0]
    vals = [pool[(i * 3 + len(shape)) % len(pool)] for i in range(m.n)]
    nodes = [anytree.AnyNode(flag=vals[i]) for i in range(m.n)]
    for i in range(m.n):
        if m.par[i] is not None:
            nodes[i].parent = nodes[m.par[i]]
    idm = tree.IdMap(nodes)
    for value in pool:
        exp = [v for v in range(m.n) if vals[v] == value]
        for mod, modname in ((search, "search"), (cachedsearch, "cachedsearch")):
            if modname == "cachedsearch" and isinstance(value, list):
                continue  # (an unhashable search value cannot be a cache key)
            judge(t, "%s.findall_by_attr(value=%r) over values of mixed kinds" % (modname, value), ("ok", exp),
                  outcome(mod.findall_by_attr, nodes[0], value, name="flag"), idm, {"shape": shape, "node_class": "AnyNode with flags %r" % (vals,)})
            t.c["attribute_kind_queries"] += 1
    # bounds and maxlevel given as numbers that are not small ints: compared like numbers (2.0, 2.5, True, 10**30, inf)
    nodes = [anytree.AnyNode(tag="x") for _ in range(m.n)]
    for i in range(m.n):
        if m.par[i] is not None:
            nodes[i].parent = nodes[m.par[i]]
    idm = tree.IdMap(nodes)
    pre = m.pre(0)
    k = len(pre)
    for mn, mx in ((float(k), None), (k + 0.5, None), (None, float(k)), (None, k - 0.5), (True, None), (None, 10 ** 30), (None, float("inf")), (k - 0.5, k + 0.5)):
        exp = expect_findall(pre, mn, mx)
        for mod, modname in ((search, "search"), (cachedsearch, "cachedsearch")):
            got = outcome(mod.findall_by_attr, nodes[0], "x", name="tag", mincount=mn, maxcount=mx)
            t.c["evaluations"] += 1
            t.c["attribute_kind_queries"] += 1
            ok = got[0] == exp[0] and (got[0] != "ok" or idm.seq(got[1]) == exp[1])
            if not ok:
                t.violation("C14: %s.findall_by_attr with mincount=%r, maxcount=%r: expected %s, observed %s" % (modname, mn, mx, exp[0], got[0]),
                            {"engine": "E2", "module": MOD, "shape": shape, "node_class": "AnyNode", "query": "numeric bounds %r %r" % (mn, mx)})
    for mlv, eq in ((True, 1), (2.0, 2), (10 ** 30, None), (float("inf"), None), (2 ** 63, None)):
        exp = m.restricted(0, frozenset(), frozenset(), eq)[0]["pre"]
        for mod, modname in ((search, "search"), (cachedsearch, "cachedsearch")):
            for fn in ("findall", "findall_by_attr"):
                got = outcome(getattr(mod, fn), nodes[0], maxlevel=mlv) if fn == "findall" else outcome(getattr(mod, fn), nodes[0], "x", name="tag", maxlevel=mlv)
                t.c["evaluations"] += 1
                t.c["attribute_kind_queries"] += 1
                if got[0] != "ok" or idm.seq(got[1]) != exp:
                    t.violation("C14: %s.%s with maxlevel=%r differs from maxlevel=%r" % (modname, fn, mlv, eq),
                                {"engine": "E2", "module": MOD, "shape": shape, "node_class": "AnyNode", "query": "maxlevel %r" % (mlv,)})
    # stateful predicates: filter_ / stop are asked in ONE pre-order pass (a "first of every kind" filter with a seen-set)
    nodes = [anytree.AnyNode(kind="k%d" % (i % 2)) for i in range(m.n)]
    for i in range(m.n):
        if m.par[i] is not None:
            nodes[i].parent = nodes[m.par[i]]
    idm = tree.IdMap(nodes)

    def first_of_kind():
        seen = set()

        def f(nd):
            if nd.kind in seen:
                return False
            seen.add(nd.kind)
            return True
        return f
    firsts = []
    kinds_seen = set()
    for v in m.pre(0):
        if v % 2 not in kinds_seen:
            kinds_seen.add(v % 2)
            firsts.append(v)
    for mod, modname in ((search, "search"), (cachedsearch, "cachedsearch")):
        judge(t, "%s.findall(stateful first-of-kind filter)" % modname, ("ok", firsts),
              outcome(mod.findall, nodes[0], filter_=first_of_kind()), idm, {"shape": shape, "node_class": "stateful filter"})
        expf = ("ok", firsts[0]) if len(firsts) == 1 else ("CountError", (1, len(firsts)))
        judge(t, "%s.find(stateful first-of-kind filter)" % modname, expf,
              outcome(mod.find, nodes[0], filter_=first_of_kind()), idm, {"shape": shape, "node_class": "stateful filter"})
        t.c["attribute_kind_queries"] += 2
    # an attribute NAME is just a name: dots in it are not a path
    nodes = [anytree.AnyNode(**{"meta.id": i % 2, "id": "n%d" % i}) for i in range(m.n)]
    for i in range(m.n):
        if m.par[i] is not None:
            nodes[i].parent = nodes[m.par[i]]
    idm = tree.IdMap(nodes)
    for name, value, exp in (("meta.id", 1, [v for v in m.pre(0) if v % 2 == 1]), ("parent.id", "n0", []), ("id.real", "n0", [])):
        got = outcome(search.findall_by_attr, nodes[0], value, name=name)
        judge(t, "search.findall_by_attr(name=%r)" % name, ("ok", exp), got, idm, {"shape": shape, "node_class": "AnyNode with dotted attribute names"})
        t.c["attribute_kind_queries"] += 1
    # the DEFAULT attribute ("name") is an attribute like any other: nodes without it are skipped (added after wave 10);
    # and `value` may be None and may be passed by keyword, in every calling form of both modules
    nodes = [anytree.AnyNode(**({"name": "x"} if i % 2 else {"flag": None})) for i in range(m.n)]
    for i in range(m.n):
        if m.par[i] is not None:
            nodes[i].parent = nodes[m.par[i]]
    idm = tree.IdMap(nodes)
    for start in range(m.n):
        pre = m.pre(start)
        named, flagged = [v for v in pre if v % 2], [v for v in pre if not v % 2]
        ctx = {"shape": shape, "start": start, "node_class": "AnyNode, odd nodes have name='x', even nodes flag=None and no name"}
        for mod, modname in ((search, "search"), (cachedsearch, "cachedsearch")):
            forms = [("(node, 'x')", lambda: mod.findall_by_attr(nodes[start], "x"), named),
                     ("(node, value='x')", lambda: mod.findall_by_attr(nodes[start], value="x"), named),
                     ("(node, 'x', name='name')", lambda: mod.findall_by_attr(nodes[start], "x", name="name"), named),
                     ("(node, None) [default name]", lambda: mod.findall_by_attr(nodes[start], None), []),
                     ("(node, value=None, name='flag')", lambda: mod.findall_by_attr(nodes[start], value=None, name="flag"), flagged),
                     ("(node, None, 'flag')", lambda: mod.findall_by_attr(nodes[start], None, "flag"), flagged),
                     ("(node=, value=None, name='flag', maxlevel=None)",
                      lambda: mod.findall_by_attr(node=nodes[start], value=None, name="flag", maxlevel=None), flagged)]
            for form, call, exp in forms:
                judge(t, "%s.findall_by_attr%s" % (modname, form), ("ok", exp), outcome_any(call), idm, ctx)
                t.c["attribute_kind_queries"] += 1
            if len(named) <= 1:
                judge(t, "%s.find_by_attr(node, value='x')" % modname, ("ok", named[0] if named else None),
                      outcome_any(lambda: mod.find_by_attr(nodes[start], value="x")), idm, ctx)
            if len(flagged) <= 1:
                judge(t, "%s.find_by_attr(node, value=None, name='flag')" % modname, ("ok", flagged[0] if flagged else None),
                      outcome_any(lambda: mod.find_by_attr(nodes[start], value=None, name="flag")), idm, ctx)
            t.c["attribute_kind_queries"] += 2
    # attributes forwarded by a SymlinkNode count as attributes of the link
    target = anytree.Node("tgt", tag="x")
    nodes = [anytree.Node("n%d" % i) for i in range(m.n)]
    for i in range(m.n):
        if m.par[i] is not None:
            nodes[i].parent = nodes[m.par[i]]
    link = anytree.SymlinkNode(target, parent=nodes[m.n - 1])
    idm = tree.IdMap(nodes + [link])
    got = outcome(search.findall_by_attr, nodes[0], "x", name="tag")
    judge(t, "search.findall_by_attr(name='tag') with a SymlinkNode", ("ok", [m.n]), got, idm, {"shape": shape, "node_class": "Node + SymlinkNode"})
    t.c["attribute_kind_queries"] += 1


def check_call_mutate_call(t, shape, m):
    """The same query before and after a mutation (attribute change, detach, attach): the cachedsearch twins must keep
    agreeing with search, i.e. with the filtered pre-order of the CURRENT tree."""
    from anytree import cachedsearch, search

    for mut in ("retag", "detach", "attach"):
        nodes = tree.build(m, tree.default_factory("user"), "topdown")
        spare = tree.default_factory("user")(99, "spare")
        spare.tag = "x"
        for i, nd in enumerate(nodes):
            nd.tag = "x" if i % 2 == 0 else "y"
        idm = tree.IdMap(nodes + [spare])
        hide = lambda n: getattr(n, "tag", None) == "x"  # noqa
        calls = [
            ("findall_by_attr", lambda mod: outcome(mod.findall_by_attr, nodes[0], "x", name="tag")),
            ("find_by_attr", lambda mod: outcome(mod.find_by_attr, nodes[0], "y", name="tag")),
            ("findall", lambda mod: outcome(mod.findall, nodes[0], filter_=hide)),
            ("find", lambda mod: outcome(mod.find, nodes[0], filter_=hide, maxlevel=1)),
        ]
        for _, c in calls:
            c(cachedsearch)
        if mut == "retag":
            nodes[m.n - 1].tag = "x" if nodes[m.n - 1].tag == "y" else "y"
        elif mut == "detach":
            if m.n < 2:
                continue
            nodes[m.n - 1].parent = None
        else:
            spare.parent = nodes[0]
        for cname, c in calls:
            a, b = c(search), c(cachedsearch)
            t.c["evaluations"] += 1
            t.c["calls_after_mutation"] += 1
            if _norm(a, idm) != _norm(b, idm):
                t.violation("C14: cachedsearch.%s disagrees with search.%s when the same query is repeated after a mutation (%s)" % (
                    cname, cname, mut), {"engine": "E2", "module": MOD, "shape": shape, "history": mut, "search": _norm(a, idm),
                                         "cachedsearch": _norm(b, idm)})


def _norm(got, idm):
    if got[0] != "ok":
        return got
    return ("ok", idm.seq(got[1]) if isinstance(got[1], tuple) else idm(got[1]))


def job(shapes, full):
    t = core.Tally()
    for s in shapes:
        if full:
            core.guard(t, "C14", {"engine": "E2", "module": MOD, "shape": s}, check_shape, t, s)
            if _count(s) <= 3:
                # a node class that is falsy (empty container): a single falsy match is still the match
                core.guard(t, "C14", {"engine": "E2", "module": MOD, "shape": s, "kind": "falsy"}, check_shape, t, s, None, True, "falsy")
                # node classes that are tuples (record-like nodes)
                for k in ("tuplenode", "tuple0"):
                    core.guard(t, "C14", {"engine": "E2", "module": MOD, "shape": s, "kind": k}, check_shape, t, s, None, True, k)
        else:
            m = tree.Model.from_shape(s)
            dom = (ABSENT, "x", None)
            asg = [a for a in itertools.product(dom, repeat=m.n) if sum(1 for v in a if v != "x") <= 2]
            core.guard(t, "C14", {"engine": "E2", "module": MOD, "shape": s}, check_shape, t, s, asg, full=False)
    return t


def _tup(x):
    return tuple(_tup(i) for i in x) if isinstance(x, list) else x


def replay(c):
    t = core.Tally()
    tags = c.get("tags")
    check_shape(t, _tup(c["shape"]), [tuple(tags)] if tags else [tuple(ABSENT for _ in range(_count(_tup(c["shape"]))))],
                kind=c.get("kind", "user"))
    return [v["why"] for v in t.violations]


def _count(shape):
    return 1 + sum(_count(s) for s in shape)


def run(tier):
    nfull, npart = (4, 5) if tier == "quick" else (5, 6)
    t = core.Tally()
    full = tree.shapes_upto(nfull)
    part = tree.shapes_upto(npart, nfull + 1)
    jobs = [(MOD, "job", {"shapes": [s], "full": True}) for s in full[::-1]] + \
           [(MOD, "job", {"shapes": [s], "full": False}) for s in part[::-1]]
    core.run_pool(jobs + [("mc.capacity", "job", {"pid": "C14"}), ("mc.positional", "job", {"pid": "C14"})], 0, into=t)
    cov = {
        "states": t.c["states"], "transitions": t.c["evaluations"], "traces_validated_against_impl": t.c["evaluations"],
        "evaluations": t.c["evaluations"], "distinct_nontrivial": t.c["nontrivial"],
        "rule": "ordered trees up to %d nodes x every assignment of a 'tag' attribute from {absent,'x',None} (at %d nodes: "
                "<=2 nodes differing from 'x') x start x maxlevel x searched value {'x',None,'q'} x (mincount,maxcount) in "
                "{None,0,k-1,k,k+1}^2 for findall_by_attr/find_by_attr, and stop/filter subsets (<=2 nodes) for findall/find; "
                "search and cachedsearch, keyword and positional; attributes that are properties, class-level defaults, slots or forwarded by "
                "a SymlinkNode; the same query repeated after a mutation (retag / detach / attach); non-trivial = at least one match or a CountError expected"
                % (nfull, npart),
        "bounds": {"full_upto": nfull, "partial_at": npart, "shapes": len(full) + len(part)},
    }
    return {"tally": t, "coverage": cov,
            "guards": ("positional_calls", "capacity_checks", "nontrivial", "count_errors_expected", "maxcount_zero_with_matches", "missing_attribute_skipped",
                       "attribute_kind_queries", "calls_after_mutation"),
            "assumptions": ["fastcache is not installed in this image: cachedsearch is the documented pass-through"]}
