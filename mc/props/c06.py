"""C06 - filter_, stop and maxlevel restrict all five iterators in the same, compositional way
(E2: shapes x start x every stop subset x every filtered-out subset x every maxlevel)."""
from .. import core, tree
from .c05 import iterators

MOD = "mc.props.c06"


def maxlevels(h):
    return [None, -1, 0] + list(range(1, h + 3))


def check_shape(t, shape, kind, maxstop, maxhide, only=None):
    m = tree.Model.from_shape(shape)
    its = iterators()
    nodes = tree.build(m, tree.default_factory(kind), "topdown")
    idm = tree.IdMap(nodes)
    for start in range(m.n):
        sub = m.pre(start)
        h = m.height(start)
        t.c["states"] += 1
        for stopset in core.powerset(sub, maxstop):
            sset = frozenset(stopset)
            sids = frozenset(id(nodes[v]) for v in stopset)
            if (start + len(stopset)) % 2 == 0:
                # stop counts on the path from the START node downwards only: in half of the cases the predicate is also
                # true for every proper ancestor of the start node, which must not make any difference
                sids = sids | frozenset(id(nodes[a]) for a in m.ancestors(start))
                t.c["stop_true_for_ancestors_of_start"] += 1 if m.par[start] is not None else 0
            # predicates may answer with any truthy / falsy value, not only True / False
            stop = (lambda n, sids=sids: ("stop" if id(n) in sids else 0)) if sids or start % 2 else None
            for hidden in core.powerset(sub, maxhide):
                hset = frozenset(hidden)
                hids = frozenset(id(nodes[v]) for v in hidden)
                filt = (lambda n, hids=hids: ([] if id(n) in hids else [n])) if hidden or start % 2 == 0 else None
                for ml in maxlevels(h):
                    if only is not None and (start, sorted(stopset), sorted(hidden), ml) != only:
                        continue
                    exp, adm = m.restricted(start, sset, hset, ml)
                    full = len(adm) == len(sub)
                    if not full or hidden:
                        t.c["nontrivial"] += 1
                    if any(v in sset and m.ch[v] for v in sub if all(a not in sset for a in m.path(v)[m.depth(start):-1])) and (ml is None or ml > 1):
                        t.c["stop_pruned_inner_node"] += 1
                    if any(v in adm and any(c in adm and c not in hset for c in m.ch[v]) for v in hset):
                        t.c["filter_hid_inner_node_with_visible_child"] += 1
                    if ml is not None and 0 < ml <= h:
                        t.c["maxlevel_cut"] += 1
                    for name, cls in its.items():
                        got = list(cls(nodes[start], filter_=filt, stop=stop, maxlevel=ml))
                        if name in ("groups", "zigzag"):
                            got = [idm.seq(g) for g in got]
                        else:
                            got = idm.seq(got)
                        t.c["evaluations"] += 1
                        t.obs((shape, kind, start, stopset, hidden, ml, name, got))
                        if (len(stopset) + len(hidden)) == 1 and ml in (None, 2):
                            it = cls(nodes[start], filter_=filt, stop=stop, maxlevel=ml)
                            list(it)
                            t.c["iterator_reuse_checks"] += 1
                            if list(it):
                                t.violation("C06: an exhausted %s iterator yields nodes again" % name,
                                            {"engine": "E2", "module": MOD, "shape": shape, "kind": kind, "start": start,
                                             "stop": sorted(stopset), "filtered_out": sorted(hidden), "maxlevel": ml, "iterator": name})
                        if got != exp[name]:
                            t.violation(
                                "C06: %s under filter_/stop/maxlevel differs from the restricted reference order" % name,
                                {"engine": "E2", "module": MOD, "shape": shape, "kind": kind, "start": start,
                                 "stop": sorted(stopset), "filtered_out": sorted(hidden), "maxlevel": ml,
                                 "iterator": name, "expected": exp[name], "observed": got})
    # maxlevel values that are numbers but not small ints: they cut like the int they equal (True == 1, 2.0 == 2), huge ints
    # and float("inf") cut nothing
    if only is None:
        for start in (0, m.n - 1):
            for mlv, eq in ((True, 1), (2.0, 2), (1.0, 1), (10 ** 30, None), (2 ** 63, None), (float("inf"), None), (False, 0)):
                exp, _adm = m.restricted(start, frozenset(), frozenset(), eq)
                for name, cls in its.items():
                    got = list(cls(nodes[start], maxlevel=mlv))
                    got = [idm.seq(g) for g in got] if name in ("groups", "zigzag") else idm.seq(got)
                    t.c["evaluations"] += 1
                    t.c["unusual_maxlevel_values"] += 1
                    if got != exp[name]:
                        t.violation("C06: %s with maxlevel=%r differs from maxlevel=%r" % (name, mlv, eq),
                                    {"engine": "E2", "module": MOD, "shape": shape, "kind": kind, "start": start, "stop": [], "filtered_out": [],
                                     "maxlevel": repr(mlv), "iterator": name, "expected": exp[name], "observed": got, "unusual_maxlevel": True})
    t.sample({"shape": shape, "kind": kind, "example": {"start": 0, "stop": [m.n - 1], "filtered_out": [0], "maxlevel": 2,
              "expected": m.restricted(0, frozenset([m.n - 1]), frozenset([0]), 2)[0]}}, cap=2)


def job(shapes, kind, maxstop, maxhide):
    t = core.Tally()
    for s in shapes:
        core.guard(t, "C06", {"engine": "E2", "module": MOD, "shape": s, "kind": kind, "start": 0, "stop": [], "filtered_out": [],
                              "maxlevel": None}, check_shape, t, s, kind, maxstop, maxhide)
    return t


def _tup(x):
    return tuple(_tup(i) for i in x) if isinstance(x, list) else x


def replay(c):
    if c.get("unusual_maxlevel"):
        t = core.Tally()
        check_shape(t, _tup(c["shape"]), c["kind"], 0, 0)
        return [v["why"] for v in t.violations if "maxlevel=" in v["why"]]
    t = core.Tally()
    check_shape(t, _tup(c["shape"]), c["kind"], None, None,
                only=(c["start"], sorted(c["stop"]), sorted(c["filtered_out"]), c["maxlevel"]))
    return [v["why"] for v in t.violations]


def plan(tier):
    """(sizes, kind, maxstop, maxhide, assertions)"""
    if tier == "quick":
        return [((1, 6), "user", None, None, 0), ((1, 5), "light", None, None, 1), ((1, 4), "weird", None, None, 0), ((1, 4), "eqhash", None, None, 0), ((1, 4), "falsylight", None, None, 1),
                ((1, 4), "container", None, None, 0), ((1, 4), "tuplenode", None, None, 0), ((1, 4), "tuple0", None, None, 1), ((1, 5), "node", None, None, 0), ((7, 7), "user", 1, 1, 0), ((8, 8), "light", 1, 0, 0),
                ((8, 8), "node", 0, 1, 1)]
    return [((1, 7), "user", None, None, 0), ((1, 6), "light", None, None, 1), ((1, 5), "weird", None, None, 0), ((1, 5), "eqhash", None, None, 0), ((1, 5), "falsylight", None, None, 1),
            ((1, 5), "container", None, None, 0), ((1, 5), "tuplenode", None, None, 0), ((1, 5), "tuple0", None, None, 1), ((1, 6), "node", None, None, 1), ((8, 8), "node", 2, 2, 0), ((9, 9), "user", 1, 1, 0)]


def run(tier):
    t = core.Tally()
    bounds = []
    for (lo, hi), kind, ms, mh, a in plan(tier):
        shapes = tree.shapes_upto(hi, lo)
        jobs = [(MOD, "job", {"shapes": c, "kind": kind, "maxstop": ms, "maxhide": mh})
                for c in core.chunks(shapes[::-1], core.NPROC * 8)]
        before = t.c["evaluations"]
        core.run_pool(jobs + ([("mc.capacity", "job", {"pid": "C06"}), ("mc.positional", "job", {"pid": "C06"})] if not bounds else []), a, into=t)
        bounds.append({"nodes": [lo, hi], "shapes": len(shapes), "class": kind, "assertions": a,
                       "stop_sets": "all" if ms is None else "<=%d nodes" % ms,
                       "filtered_out_sets": "all" if mh is None else "<=%d nodes" % mh,
                       "evaluations": t.c["evaluations"] - before})
    cov = {
        "states": t.c["states"],
        "transitions": t.c["evaluations"],
        "traces_validated_against_impl": t.c["evaluations"],
        "evaluations": t.c["evaluations"],
        "distinct_nontrivial": t.c["nontrivial"],
        "rule": "ordered trees x start node x stop subset x filtered-out subset x maxlevel in {None,-1,0,1..height+2} x 5 "
                "iterators against the reference restriction of the unrestricted order; state = (tree, start), "
                "transition = one restricted iteration; non-trivial = the restriction removes at least one node",
        "bounds": bounds,
    }
    return {"tally": t, "coverage": cov,
            "guards": ("unusual_maxlevel_values", "stop_true_for_ancestors_of_start", "positional_calls", "capacity_checks", "nontrivial", "stop_pruned_inner_node", "filter_hid_inner_node_with_visible_child", "maxlevel_cut", "iterator_reuse_checks"),
            "assumptions": ["full stop x filter product up to 5 (6 thorough) nodes; beyond that subsets of bounded size"]}
