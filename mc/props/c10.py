"""C10 - dictionary export and import are faithful inverses of each other
(E2: shapes x per-node attribute dictionaries x start x maxlevel x attriter x childiter x dictcls x nodecls)."""
import collections
import copy
import itertools

from .. import core, tree

MOD = "mc.props.c10"
SHARED = ["shared", {"deep": [1, 2]}]
DOMAIN = [
    {},
    {"a": 1},
    {"b": None, "a": [1, {"k": 2}], "c": {"x": SHARED}},
    {"name": "nm", "a": 0},
    {"children_x": 1, "_priv": 2, "b": "t"},
    {"size": 4096, "depth": "deep", "height": None, "is_leaf": 0},   # instance attributes named like read-only properties
]
BOOK = ("_NodeMixin__children", "_NodeMixin__parent")
MIXIN_PRIVATE = ("_NodeMixin__", "_LightNodeMixin__")   # name-mangled attributes of the mixins: bookkeeping, never user data


def attriters():
    return {
        "none": (None, lambda items: list(items)),
        "sorted": (lambda items: sorted(items, key=lambda kv: kv[0]), lambda items: sorted(items, key=lambda kv: kv[0])),
        "drop_b": (lambda items: [(k, v) for k, v in items if not k.startswith("b")],
                   lambda items: [(k, v) for k, v in items if not k.startswith("b")]),
        "drop_all": (lambda items: [], lambda items: []),
        "generator": (lambda items: ((k, v) for k, v in items if k != "a"), lambda items: [(k, v) for k, v in items if k != "a"]),
    }


def childiters():
    return {
        "list": (list, lambda cs: list(cs)),
        "reversed": (lambda cs: list(reversed(cs)), lambda cs: list(cs)[::-1]),
        "drop_first": (lambda cs: list(cs)[1:], lambda cs: list(cs)[1:]),
        "lazy_reversed": (reversed, lambda cs: list(cs)[::-1]),            # a lazy iterator is always truthy
        "lazy_generator": (lambda cs: (c for c in cs), lambda cs: list(cs)),
    }


def ref_export(m, attrs, v, level, maxlevel, attrit, childit, dictcls):
    data = dictcls(attrit(list(attrs[v].items())))
    if maxlevel is None or level < maxlevel:
        kids = [ref_export(m, attrs, c, level + 1, maxlevel, attrit, childit, dictcls) for c in childit(m.ch[v])]
        if kids:
            data["children"] = kids
    return data


def same(a, b, dictcls):
    """Deep equality incl. mapping type at every exported level and key order."""
    if type(a) is not type(b):
        return False
    if isinstance(a, dict):
        if list(a.keys()) != list(b.keys()):
            return False
        return all(same(a[k], b[k], dictcls) for k in a)
    if isinstance(a, list):
        return len(a) == len(b) and all(same(x, y, dictcls) for x, y in zip(a, b))
    return a == b


def levels_ok(d, dictcls):
    if type(d) is not dictcls:
        return False
    return all(levels_ok(c, dictcls) for c in d.get("children", []))


def mk_tree(m, attrs, kind):
    import anytree

    if kind == "anynode":
        nodes = [anytree.AnyNode(**copy.deepcopy(attrs[i])) for i in range(m.n)]
    elif kind == "node":
        nodes = [anytree.Node(**copy.deepcopy(attrs[i])) for i in range(m.n)]
    else:
        nodes = [_user()(**copy.deepcopy(attrs[i])) for i in range(m.n)]
    for i in range(m.n):
        if m.par[i] is not None:
            nodes[i].parent = nodes[m.par[i]]
    return nodes


_U = []


def _user():
    if not _U:
        import anytree

        class UserKw(anytree.NodeMixin):
            def __init__(self, parent=None, **kw):
                self.__dict__.update(kw)
                self.parent = parent

        _U.append(UserKw)
    return _U[0]


class CallbackFault(Exception):
    pass


def check_reuse_after_callback_fault(t, m, nodes, live, shape, assign, kind):
    """One DictExporter object whose user callback (attriter / childiter / dictcls) raises at its k-th invocation, for
    every k; afterwards the same exporter must export correctly again (deviation-bounded environment faults)."""
    from anytree.exporter import DictExporter

    for ml in (None, 2):
        for which in ("attriter", "childiter", "dictcls"):
            state = {"k": None, "n": 0}

            def tick():
                i = state["n"]
                state["n"] += 1
                if state["k"] is not None and i == state["k"]:
                    raise CallbackFault("%s call #%d" % (which, i))

            def attriter(items):
                if which == "attriter":
                    tick()
                return list(items)

            def childiter(cs):
                if which == "childiter":
                    tick()
                return list(cs)

            def dictcls(items):
                if which == "dictcls":
                    tick()
                return dict(items)

            exporter = DictExporter(dictcls=dictcls, attriter=attriter, childiter=childiter, maxlevel=ml)
            exp = ref_export(m, live, 0, 1, ml, lambda it: list(it), lambda cs: list(cs), dict)
            state["k"], state["n"] = None, 0
            first = exporter.export(nodes[0])
            calls = state["n"]
            if first != exp:
                return  # reported by the main comparison
            for k in range(calls):
                state["k"], state["n"] = k, 0
                try:
                    exporter.export(nodes[0])
                    raised = False
                except CallbackFault:
                    raised = True
                state["k"], state["n"] = None, 0
                got = exporter.export(nodes[0])
                t.c["evaluations"] += 1
                t.c["exports_after_callback_fault"] += 1
                why = None
                if not raised:
                    why = "exception raised by the user %s callback was swallowed" % which
                elif got != exp:
                    why = "export by the same exporter object after a %s callback raised (call #%d) differs" % (which, k)
                if why:
                    t.violation("C10: " + why, {"engine": "E2", "module": MOD, "shape": shape, "assign": list(assign), "kind": kind,
                                                "history": "callback-fault", "callback": which, "call": k, "maxlevel": ml,
                                                "expected": exp, "observed": got})
                    return


_H = []


def _anyhook():
    """An AnyNode subclass whose attach hooks look at the node's own attributes (e.g. a sibling-uniqueness guard): the
    attributes of an imported node must be there when it is attached."""
    if not _H:
        import anytree

        class Guarded(anytree.AnyNode):
            def _pre_attach(self, parent):
                self.seen_pre = sorted(k for k in vars(self) if not k.startswith("_") and k != "seen_pre" and k != "seen_post")

            def _post_attach(self, parent):
                self.seen_post = len(vars(self))

        _H.append(Guarded)
    return _H[0]


def _check_and_strip_hook_marks(node, d, is_root):
    """The attach hooks of the 'anyhook' class recorded which attributes they saw; then remove the marks again."""
    why = None
    marks = vars(node)
    if not is_root:
        want = sorted(k for k in d if k != "children" and not k.startswith("_"))
        if marks.get("seen_pre") != want:
            why = "attributes %r were not (all) stored yet when the imported node was attached (hook saw %r)" % (want, marks.get("seen_pre"))
    marks.pop("seen_pre", None)
    marks.pop("seen_post", None)
    for c, cd in zip(node.children, d.get("children", [])):
        why = _check_and_strip_hook_marks(c, cd, False) or why
    return why


_C = []


def _container():
    """A user node class that is a container of its children: empty (falsy) while it has none."""
    if not _C:
        class Container(_user()):
            def __len__(self):
                return len(self.children)

            def __iter__(self):
                return iter(self.children)

        _C.append(Container)
    return _C[0]


def tree_snapshot(nodes, idm):
    return (tree.read_structure(nodes, idm), [copy.deepcopy({k: v for k, v in vars(nd).items() if k not in BOOK}) for nd in nodes])


def ref_tree_of_dict(d):
    """(attrs, children) nested, from an import dictionary."""
    return ({k: v for k, v in d.items() if k != "children"}, [ref_tree_of_dict(c) for c in d.get("children", [])])


def real_tree(node):
    return ({k: v for k, v in vars(node).items() if k not in BOOK}, [real_tree(c) for c in node.children])


def nav_of_node(node):
    return ((node.size, node.height, node.depth, len(node.leaves), len(node.descendants), node.is_leaf), [nav_of_node(c) for c in node.children])


def nav_of_dict(d, depth):
    kids = [nav_of_dict(c, depth + 1) for c in d.get("children", [])]
    size = 1 + sum(k[0][0] for k in kids)
    height = 1 + max(k[0][1] for k in kids) if kids else 0
    leaves = sum(k[0][3] for k in kids) if kids else 1
    return ((size, height, depth, leaves, size - 1, not kids), kids)


def alias_equal(d, memo):
    """The same nesting, but sub-dictionaries that are equal are one and the same object (a template used at several places)."""
    out = dict(d)
    if "children" in out:
        out["children"] = [alias_equal(c, memo) for c in out["children"]]
    key = repr(out)
    return memo.setdefault(key, out)


def add_empty_children(d):
    d = dict(d)
    if "children" in d:
        d["children"] = [add_empty_children(c) for c in d["children"]]
    else:
        d["children"] = []
    return d


def check_tree(t, shape, assign, kinds=("anynode", "node", "user"), only=None):
    from anytree.exporter import DictExporter
    from anytree.importer import DictImporter

    m = tree.Model.from_shape(shape)
    ait, cit = attriters(), childiters()
    for kind in kinds:
        attrs = [dict(DOMAIN[a]) for a in assign]
        if kind == "node":
            attrs = [dict({"name": "n%d" % i}, **{k: v for k, v in a.items() if k != "name"}) for i, a in enumerate(attrs)]
        nodes = mk_tree(m, attrs, kind)
        idm = tree.IdMap(nodes)
        if sum(assign) % 2 == 0:
            # every navigation property has been read before the export (whatever the mixin remembers is in place)
            for nd in nodes:
                (nd.size, nd.height, nd.depth, nd.path, nd.root, nd.leaves, nd.descendants, nd.ancestors, nd.siblings, nd.is_leaf, nd.is_root)
            t.c["exports_after_navigation_reads"] += 1
        # what the exporter must see: vars() of the live node in insertion order, without the mixin's own bookkeeping
        live = [{k: v for k, v in vars(nd).items() if not k.startswith(MIXIN_PRIVATE)} for nd in nodes]
        snap = tree_snapshot(nodes, idm)
        # ONE exporter object constructed with other settings, used once, and re-configured through its public attributes
        # before every call: must behave like a freshly constructed exporter with these settings
        rex = DictExporter(dictcls=collections.OrderedDict, attriter=lambda items: [], childiter=lambda cs: list(cs)[:1], maxlevel=1)
        rex.export(nodes[0])
        for start in range(m.n):
            t.c["states"] += 1
            h = m.height(start)
            for ml in [None, 0] + list(range(1, h + 2)):
                for an, (areal, aref) in ait.items():
                    for cn, (creal, cref) in cit.items():
                        for dictcls in (dict, collections.OrderedDict):
                            if only and (start, ml, an, cn, dictcls.__name__) != only:
                                continue
                            exp = ref_export(m, live, start, 1, ml, aref, cref, dictcls)
                            got = DictExporter(dictcls=dictcls, attriter=areal, childiter=creal, maxlevel=ml).export(nodes[start])
                            t.c["evaluations"] += 1
                            t.obs((shape, assign, kind, start, ml, an, cn, dictcls.__name__, repr(got)))
                            if m.size(start) > 1:
                                t.c["nontrivial"] += 1
                            if ml is not None and ml <= h and m.ch[start]:
                                t.c["maxlevel_cuts"] += 1
                            why, reconf = None, False
                            if not same(exp, got, dictcls):
                                why = "export differs from the reference serialisation"
                            elif not levels_ok(got, dictcls):
                                why = "a nested level is not an instance of dictcls"
                            elif not only:
                                rex.dictcls, rex.attriter, rex.childiter, rex.maxlevel = dictcls, areal, creal, ml
                                got2 = rex.export(nodes[start])
                                t.c["evaluations"] += 1
                                t.c["reconfigured_exports"] += 1
                                if not same(exp, got2, dictcls) or not levels_ok(got2, dictcls):
                                    why = "export of an exporter re-configured through its public attributes differs from a fresh exporter's"
                                    got = got2
                                    reconf = True
                            if why:
                                t.violation("C10: " + why, {"engine": "E2", "module": MOD, "shape": shape, "assign": list(assign),
                                            "kind": kind, "start": start, "maxlevel": ml, "attriter": an, "childiter": cn,
                                            "dictcls": dictcls.__name__, "expected": exp, "observed": got, "reconfigured": reconf})
        if tree_snapshot(nodes, idm) != snap:
            t.violation("C10: export modified the tree", {"engine": "E2", "module": MOD, "shape": shape, "assign": list(assign), "kind": kind})
        if only:
            continue
        if m.n >= 2 and sum(assign) % 3 == 0:
            check_reuse_after_callback_fault(t, m, nodes, live, shape, assign, kind)
        # import side -----------------------------------------------------------------------
        d = DictExporter().export(nodes[0])
        dcut = DictExporter(maxlevel=2).export(nodes[0])
        for variant, dd in (("exported", d), ("with empty children lists", add_empty_children(d)), ("exported with maxlevel=2", dcut),
                            ("with shared sub-dictionaries", alias_equal(d, {}))):
            for nodecls_name in ("anynode", "node", "user", "container", "anyhook"):
                if nodecls_name == "node" and kind != "node":
                    continue  # Node needs a name in every dictionary
                import anytree

                nodecls = {"anynode": anytree.AnyNode, "node": anytree.Node, "user": _user(), "container": _container(),
                           "anyhook": _anyhook()}[nodecls_name]
                before = copy.deepcopy(dd)
                root = DictImporter(nodecls=nodecls).import_(dd)
                t.c["evaluations"] += 1
                t.c["imports"] += 1
                why = None
                if nodecls_name == "anyhook" and root is not None:
                    why = _check_and_strip_hook_marks(root, dd, True)
                if why:
                    pass
                elif dd != before:
                    why = "import_ modified its argument"
                elif real_tree(root) != ref_tree_of_dict(before):
                    why = "imported tree differs from the dictionary (shape, order or attributes)"
                elif not _all_instances(root, nodecls):
                    why = "imported nodes are not nodecls instances"
                elif root.parent is not None:
                    why = "imported root has a parent"
                elif nav_of_node(root) != nav_of_dict(before, 0):
                    why = "size / height / depth / leaves of the imported nodes do not follow from the imported links"
                else:
                    back = DictExporter().export(root)
                    if back != (dcut if variant.endswith("maxlevel=2") else d):
                        why = "export(import_(d)) differs from d (up to empty children lists)"
                    if real_tree(root) != real_tree(nodes[0]) and not variant.endswith("maxlevel=2"):
                        why = "import_(export(t)) is not isomorphic to t"
                if why:
                    t.violation("C10: " + why, {"engine": "E2", "module": MOD, "shape": shape, "assign": list(assign), "kind": kind,
                                "nodecls": nodecls_name, "variant": variant, "dict": before})
    t.sample({"shape": shape, "attribute_sets": [DOMAIN[a] for a in assign]}, cap=1)


def _all_instances(root, cls):
    return type(root) is cls and all(_all_instances(c, cls) for c in root.children)


def assignments(n, full):
    if full:
        return list(itertools.product(range(len(DOMAIN)), repeat=n))
    return [tuple((i * (r + 1) + r) % len(DOMAIN) for i in range(n)) for r in range(10)]


def job(items):
    t = core.Tally()
    for shape, assign in items:
        for kind in ("anynode", "node", "user"):
            core.guard(t, "C10", {"engine": "E2", "module": MOD, "shape": shape, "assign": list(assign), "kind": kind},
                       check_tree, t, shape, assign, (kind,))
    return t


def _tup(x):
    return tuple(_tup(i) for i in x) if isinstance(x, list) else x


def replay(c):
    t = core.Tally()
    only = (c["start"], c["maxlevel"], c["attriter"], c["childiter"], c["dictcls"]) if "attriter" in c and not c.get("reconfigured") else None
    check_tree(t, _tup(c["shape"]), tuple(c["assign"]), kinds=(c["kind"],), only=only)
    return [v["why"] for v in t.violations]


def run(tier):
    nfull, npart = (3, 5) if tier == "quick" else (4, 7)
    items = []
    for n in range(1, npart + 1):
        for s in tree.plane_trees(n):
            for a in assignments(n, n <= nfull):
                items.append((s, a))
    t = core.Tally()
    core.run_pool([(MOD, "job", {"items": c}) for c in core.chunks(items[::-1], core.NPROC * 8)] +
                  [(MOD, "job", {"items": c}) for c in core.chunks(items, core.NPROC * 3 + 1)] + [("mc.positional", "job", {"pid": "C10"}), ("mc.numbers", "job", {"pid": "C10"})], 0, into=t)   # second pass, other order
    core.run_pool([(MOD, "job", {"items": c}) for c in core.chunks(items[:60], core.NPROC)], 1, into=t)
    cov = {
        "states": t.c["states"], "transitions": t.c["evaluations"], "traces_validated_against_impl": t.c["evaluations"],
        "evaluations": t.c["evaluations"], "distinct_nontrivial": t.c["nontrivial"],
        "rule": "ordered trees up to %d nodes with every assignment of 6 attribute dictionaries (empty, one key, nested with "
                "None/list/dict/shared object, key 'name', private key, keys named like read-only properties) per node (10 rotations per shape above %d nodes) x 3 "
                "node classes x start x maxlevel {None,0,1..height+1} x 5 attriters x 5 childiters (incl. lazy iterators) x {dict, OrderedDict}: "
                "export vs. reference serialisation incl. mapping type and key order at every level; import of the exported "
                "dictionary (also with explicit empty children lists) into AnyNode/Node/user class/container-like falsy user class, both "
                "round trips; one exporter object re-used after its attriter/childiter/dictcls callback raised at every call position; "
                "arguments unmodified; non-trivial = exported subtree has more than one node" % (npart, nfull),
        "bounds": {"full_assignments_upto": nfull, "max_nodes": npart, "trees": len(items)},
    }
    return {"tally": t, "coverage": cov, "guards": ("unusual_number_calls", "exports_after_navigation_reads", "positional_calls", "reconfigured_exports", "nontrivial", "maxlevel_cuts", "imports", "exports_after_callback_fault"),
            "assumptions": ["attribute values from a 5-element domain; node classes with an instance __dict__"]}
