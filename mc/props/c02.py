"""C02 - attach, move, detach and children assignment have exactly the specified effect
(E1, fault-free transitions in lock-step with the declarative SpecModel)."""
from .. import e1run

CFG = {"read": False, "nonnode": True, "extras": True}


def configs(tier):
    out = []
    new = {"node": ("node",), "anynode": ("anynode",), "symlink": ("symlink",)}
    for kind in ("mixin", "light", "node", "anynode", "symlink"):
        cfg = dict(CFG)
        if kind in new:
            cfg["new"] = new[kind]
        out.append(dict(kind=kind, n=3, cfg=dict(cfg, read=True), hidden=True, d=0, assertions=0, judge="c02"))
        out.append(dict(kind=kind, n=4, cfg=cfg, hidden=False, d=0, assertions=1 if kind == "mixin" else 0, judge="c02"))
    # user node classes with their own comparison / truth value / container protocol are node classes like any other
    for kind in ("trap:light:falsy", "trap:light:eq", "trap:eq", "trap:all", "trap:light:len0"):
        out.append(dict(kind=kind, n=3, cfg=dict(CFG), hidden=False, d=0, assertions=0, judge="c02"))
        if tier == "thorough" or kind in ("trap:light:eq", "trap:light:falsy"):
            out.append(dict(kind=kind, n=4, cfg=dict(CFG, extras=False), hidden=False, d=0, assertions=0, judge="c02"))
    if tier == "thorough":
        for kind in ("mixin", "light"):
            out.append(dict(kind=kind, n=4, cfg=dict(CFG, read=True), hidden=True, d=0, assertions=0, judge="c02"))
            out.append(dict(kind=kind, n=5, cfg=dict(CFG, L=4), hidden=False, d=0, assertions=0, judge="c02"))
        out.append(dict(kind="node", n=5, cfg=dict(CFG, L=3, new=("node",)), hidden=False, d=0, assertions=0, judge="c02"))
    return out


def run(tier):
    t, summ = e1run.run_configs(configs(tier))
    cov = {
        "states": sum(s["states"] for s in summ),
        "transitions": t.c["transitions"],
        "traces_validated_against_impl": t.c["executions"] - t.c["spec:undefined"],
        "evaluations": t.c["executions"],
        "distinct_nontrivial": t.c["nontrivial"],
        "rule": "every (reachable forest, structural call) pair executed on the real classes and compared with the "
                "declarative model (outcome class and complete parent/children map); non-trivial = the call changed "
                "the forest or had to be refused; pairs are distinct by construction",
        "bounds": summ,
    }
    return {
        "tally": t,
        "coverage": cov,
        "guards": ("spec:ok", "spec:noop", "spec:TreeError", "spec:LoopError", "spec:raises", "changed>=2_parents"),
        "assumptions": ["bounded universes (N<=4, 5 in thorough); hooks do not raise in this check (see C03/C16)",
                        "LightNodeMixin with non-node arguments is left undefined by the statement: not judged"],
    }
