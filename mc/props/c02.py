"""C02 - attach, move, detach and children assignment have exactly the specified effect
(E1, fault-free transitions in lock-step with the declarative SpecModel)."""
from .. import e1run

CFG = {"read": False, "nonnode": True, "extras": True}


def configs(tier):
    out = []
    new = {"node": ("node",), "anynode": ("anynode",), "symlink": ("symlink",)}
    # LightNodeMixin with the debug switch on (its post-conditions see the caller's raw children argument, e.g. a generator)
    out.append(dict(kind="light", n=3, cfg=dict(CFG), hidden=False, d=0, assertions=1, judge="c02"))
    out.append(dict(kind="baresym", n=4, cfg=dict(CFG, extras=False), hidden=False, d=0, assertions=0, judge="c02"))
    out.append(dict(kind="pctnode", n=3, cfg=dict(CFG, new=("pctnode",)), hidden=False, d=0, assertions=0, judge="c02"))
    for kind in ("mixin", "light", "node", "anynode", "symlink"):
        cfg = dict(CFG)
        if kind in new:
            cfg["new"] = new[kind]
        out.append(dict(kind=kind, n=3, cfg=dict(cfg, read=True), hidden=True, d=0, assertions=0, judge="c02"))
        out.append(dict(kind=kind, n=4, cfg=cfg, hidden=False, d=0, assertions=1 if kind == "mixin" else 0, judge="c02"))
    # user node classes with their own comparison / truth value / container protocol are node classes like any other
    for kind in ("trap:light:falsy", "trap:light:eq", "trap:eq", "trap:all", "trap:light:len0", "trap:tuple0", "trap:tuple2"):
        out.append(dict(kind=kind, n=3, cfg=dict(CFG), hidden=False, d=0, assertions=0, judge="c02"))
        if tier == "thorough" or kind in ("trap:light:eq", "trap:light:falsy"):
            out.append(dict(kind=kind, n=4, cfg=dict(CFG, extras=False), hidden=False, d=0, assertions=0, judge="c02"))
    if tier == "thorough":
        for kind in ("mixin", "light"):
            out.append(dict(kind=kind, n=4, cfg=dict(CFG, read=True), hidden=True, d=0, assertions=0, judge="c02"))
            out.append(dict(kind=kind, n=5, cfg=dict(CFG, L=4), hidden=False, d=0, assertions=0, judge="c02"))
        out.append(dict(kind="node", n=5, cfg=dict(CFG, L=3, new=("node",)), hidden=False, d=0, assertions=0, judge="c02"))
    return out


def job_deep():
    """Structural calls far down a chain of 3000 nodes (the pinned loop check walks the parent links iteratively)."""
    import sys
    import anytree
    from .. import core, tree

    t = core.Tally()

    def run():
        sys.setrecursionlimit(1000)
        for kind in ("user", "light"):
            mk = tree.default_factory(kind)
            nodes = [mk(i, "n%d" % i) for i in range(3001)]
            for i in range(1, 3001):
                nodes[i].parent = nodes[i - 1]
            deepest, root = nodes[-1], nodes[0]
            fresh, k0, k1 = mk(0, "f"), mk(0, "k0"), mk(0, "k1")
            why = None
            try:
                fresh.parent = deepest
                if fresh.parent is not deepest or deepest.children[-1] is not fresh:
                    why = "fresh.parent = deepest has the wrong effect"
                deepest.children = [k0, k1]
                if len(deepest.children) != 2 or fresh.parent is not None or k1.parent is not deepest:
                    why = why or "deepest.children = [k0, k1] has the wrong effect"
            except Exception as exc:  # noqa
                why = "a legal call 3000 levels down was refused with %s" % type(exc).__name__
            for what, call in (("root.parent = deepest", lambda: setattr(root, "parent", deepest)),
                               ("deepest.children = [root]", lambda: setattr(deepest, "children", [root])),
                               ("nodes[1500].parent = deepest", lambda: setattr(nodes[1500], "parent", deepest))):
                try:
                    call()
                    why = why or "%s was accepted (loop)" % what
                except anytree.LoopError:
                    pass
                except Exception as exc:  # noqa
                    why = why or "%s raised %s instead of LoopError" % (what, type(exc).__name__)
            t.c["evaluations"] += 1
            t.c["deep_chain_calls"] += 5
            if why:
                t.violation("C02: " + why, {"engine": "E2", "module": "mc.props.c02", "part": "deep", "kind": kind})
            for nd in nodes:
                try:
                    nd.parent = None
                except Exception:  # noqa
                    pass

    core.guard(t, "C02", {"engine": "E2", "module": "mc.props.c02", "part": "deep"}, run, _limit=120)
    return t


def replay(c):
    return [v["why"] for v in job_deep().violations]


def run(tier):
    t, summ = e1run.run_configs(configs(tier))
    from .. import core
    core.run_pool([("mc.props.c02", "job_deep", {}), ("mc.positional", "job", {"pid": "C02"})], 0, into=t)
    cov = {
        "states": sum(s["states"] for s in summ),
        "transitions": t.c["transitions"],
        "traces_validated_against_impl": t.c["executions"] - t.c["spec:undefined"],
        "evaluations": t.c["executions"],
        "distinct_nontrivial": t.c["nontrivial"],
        "rule": "every (reachable forest, structural call) pair executed on the real classes and compared with the "
                "declarative model (outcome class and complete parent/children map); non-trivial = the call changed "
                "the forest or had to be refused; pairs are distinct by construction",
        "bounds": summ,
    }
    return {
        "tally": t,
        "coverage": cov,
        "guards": ("spec:ok", "spec:noop", "spec:TreeError", "spec:LoopError", "spec:raises", "changed>=2_parents", "deep_chain_calls", "positional_calls"),
        "assumptions": ["bounded universes (N<=4, 5 in thorough); hooks do not raise in this check (see C03/C16)",
                        "LightNodeMixin with non-node arguments is left undefined by the statement: not judged"],
    }
