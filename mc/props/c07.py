"""C07 - Resolver.get returns the node a path denotes and fails cleanly when none exists
(E2: shapes x name assignments x start x all paths over a component alphabet x ignorecase x relax x
separator/pathattr configurations, against a reference step interpreter; plus the two round-trip theorems)."""
import itertools

from .. import core, tree

MOD = "mc.props.c07"
NAMES_FULL = ("a", "A", "b", "a*", "a;b", ".")
NAMES_SMALL = ("a", "A", "b", "a*")
ORDINARY_BAD = ("", ".", "..")


def ref_get(m, names, start, path, sep, ignorecase):
    """-> ("node", index) | ("error", class name)"""
    def eq(a, b):
        return a.upper() == b.upper() if ignorecase else a == b

    parts = path.split(sep)
    node = start
    if path.startswith(sep):
        node = m.root(start)
        parts.pop(0)
        if parts[0] == "":
            return ("error", "ResolverError")
        if not eq(names[node], parts[0]):
            return ("error", "ResolverError")
        parts.pop(0)
    for part in parts:
        if part == "..":
            if m.par[node] is None:
                return ("error", "RootResolverError")
            node = m.par[node]
        elif part in ("", "."):
            continue
        else:
            for c in m.ch[node]:
                if eq(names[c], part):
                    node = c
                    break
            else:
                return ("error", "ChildResolverError")
    return ("node", node)


CONFIGS = {
    # name: (separator, pathattr, value transform, missing attribute on odd nodes)
    "default": ("/", "name", None, False),
    "semicolon": (";", "name", None, False),
    "doublecolon": ("::", "name", None, False),
    "customattr": ("/", "tag", None, False),
    "missingattr": ("/", "tag", None, True),
    "intvalues": ("|", "name", "int", False),
    "wordsep": (" then ", "name", None, False),    # a separator made of lower-case letters (case folding must not touch it)
    "lettersep": ("x", "name", None, False),
    # user node classes with their own truth value / value semantics are nodes like any other
    "falsyvalues": ("/", "name", "falsy", False),   # path attribute values 0, False, 0.0, () - "as a string"
    "norepr": ("/", "name", None, False),   # repr() of the nodes raises: relax=True must still never raise
    "tuplenode": ("/", "name", None, False),   # the node class is a tuple subclass ("%r" % node must not unpack it)
    "falsy": ("/", "name", None, False),
    "eqhash": ("/", "name", None, False),
    # a tree built from two node classes with different class-level separators (even indices '/', odd indices '|'):
    # the separator that counts is the one of the START node's class
    "mixedsep": ("/", "name", None, False),
}
_CLS = {}


def node_class(sep, variant="plain"):
    import anytree

    if (sep, variant) not in _CLS:
        d = {"separator": sep}
        if variant == "falsy":
            d["__len__"] = lambda self: 0
        elif variant == "norepr":
            def _norepr(self):
                raise RuntimeError("repr() of this node is not available")
            d["__repr__"] = _norepr
        elif variant == "tuplenode":
            import collections

            base = collections.namedtuple("Entry", "kind size")
            cls = type("SepNode_tuple", (base, anytree.NodeMixin), {"separator": sep, "__new__": lambda c: base.__new__(c, "entry", 0)})
            _CLS[(sep, variant)] = cls
            return cls
        elif variant == "eqhash":
            d["__eq__"] = lambda self, other: True
            d["__ne__"] = lambda self, other: False
            d["__hash__"] = lambda self: 5
        _CLS[(sep, variant)] = type("SepNode_" + variant, (anytree.NodeMixin,), d)
    return _CLS[(sep, variant)]


def build(m, names, cfg):
    sep, attr, transform, missing = CONFIGS[cfg]
    cls = node_class(sep, cfg if cfg in ("falsy", "eqhash", "norepr", "tuplenode") else "plain")
    nodes = []
    strnames = []
    for i in range(m.n):
        nd = node_class("|")() if cfg == "mixedsep" and i % 2 else cls()
        val = names[i]
        if transform == "int":
            val = {"a": 1, "A": 2, "b": 0, "a*": 11}.get(val, 3)
        elif transform == "falsy":
            val = {"a": 0, "A": False, "b": 0.0, "a*": ()}.get(val, None)
        if missing and i % 2 == 1:
            strnames.append("None")
        else:
            setattr(nd, attr, val)
            strnames.append(str(val))
        nodes.append(nd)
    for i in range(m.n):
        if m.par[i] is not None:
            nodes[i].parent = nodes[m.par[i]]
    return nodes, strnames, sep, attr


def paths_for(strnames, sep, maxcomp):
    comps = sorted(set(strnames)) + ["x", "..", ".", ""]
    comps = [c for c in comps if sep not in c]
    out = []
    for k in range(1, maxcomp + 1):
        for combo in itertools.product(comps, repeat=k):
            rel = sep.join(combo)
            out.append(rel)
            out.append(sep + rel)
    return sorted(set(out))


RECONF = [False]   # set per job: all four option settings are served by ONE Resolver re-configured through its public attributes


class Reconfigured(object):
    """resolvers[(ignorecase, relax)] -> always the same Resolver object, whose public attributes pathattr / ignorecase /
    relax are assigned just before each call.  It was constructed with the opposite settings and has been used once."""

    def __init__(self, anytree, attr, node):
        self.attr = attr
        self.r = anytree.Resolver("no_such_attribute", ignorecase=True, relax=True)
        self.r.get(node, "x")
        self.r.glob(node, "x*")

    def __getitem__(self, key):
        self.r.pathattr, self.r.ignorecase, self.r.relax = self.attr, key[0], key[1]
        return self.r


def check_tree(t, shape, names, cfg, maxcomp, only=None):
    import anytree

    m = tree.Model.from_shape(shape)
    nodes, strnames, sep, attr = build(m, names, cfg)
    idm = tree.IdMap(nodes)
    sep_of = [type(nd).separator for nd in nodes]
    paths_by_sep = {s_: paths_for(strnames, s_, maxcomp) for s_ in sorted(set(sep_of))}
    paths = sorted(set().union(*paths_by_sep.values()))
    resolvers = {(ic, rx): anytree.Resolver(attr, ignorecase=ic, relax=rx) for ic in (False, True) for rx in (False, True)}
    ctx = {"shape": shape, "names": list(names), "config": cfg}
    if RECONF[0]:
        resolvers = Reconfigured(anytree, attr, nodes[0])
        ctx["reconfigured"] = True
        t.c["reconfigured_resolver_trees"] += 1
    if sep != "/" and only is None:
        # the same path strings are first resolved on a twin tree of a class with ANOTHER separator (process-wide state
        # keyed by the path alone would leak from one class to the other)
        twin = [node_class("/")() for _ in range(m.n)]
        for i in range(m.n):
            setattr(twin[i], attr, strnames[i])
            if m.par[i] is not None:
                twin[i].parent = twin[m.par[i]]
    else:
        twin = None
    for start in range(m.n):
        t.c["states"] += 1
        for path in paths:
            if twin is not None:
                try:
                    resolvers[(False, True)].get(twin[m.n - 1], path)   # same string, other separator, just before
                except Exception:  # noqa
                    pass
            for ic in (False, True):
                exp = ref_get(m, strnames, start, path, sep_of[start], ic)
                for rx in (False, True):
                    if only and (start, path, ic, rx) != only:
                        continue
                    if cfg == "norepr" and not rx and exp[0] == "error":
                        continue  # the strict error message legitimately contains the repr of the node
                    t.c["evaluations"] += 1
                    try:
                        r = resolvers[(ic, rx)].get(nodes[start], path)
                        got = ("node", idm(r)) if r is not None else ("none", None)
                    except anytree.ResolverError as exc:
                        got = ("error", type(exc).__name__)
                    except Exception as exc:  # noqa
                        got = ("crash", "%s: %s" % (type(exc).__name__, exc))
                    if exp[0] == "error":
                        t.c["err:" + exp[1]] += 1
                        want = ("none", None) if rx else exp
                    else:
                        want = exp
                        if exp[1] != start:
                            t.c["nontrivial"] += 1
                    if got != want:
                        t.violation("C07: get(%r) %s: expected %s, observed %s" % (path, "relaxed" if rx else "strict", want, got),
                                    dict(ctx, engine="E2", module=MOD, start=start, path=path, ignorecase=ic, relax=rx,
                                         expected=want, observed=got))
        t.obs((shape, names, cfg, start, t.c["evaluations"]))
    if only:
        return
    if cfg in ("default", "norepr") and m.n >= 2 and False:
        pass
    if cfg == "default" and m.n >= 2:
        rename_histories(t, m, nodes, list(strnames), sep, attr, idm, ctx)
    # round-trip theorems on sibling-unique ordinary names
    for ic in (False, True):
        fold = (lambda s: s.upper()) if ic else (lambda s: s)
        ok = all(len({fold(strnames[c]) for c in m.ch[v]}) == len(m.ch[v]) for v in range(m.n))
        ok = ok and all(s not in ORDINARY_BAD and not any(x in s for x in set(sep_of)) for s in strnames)
        if not ok:
            continue
        r = resolvers[(ic, False)]
        for a in range(m.n):
            for b in range(m.n):
                t.c["theorem_instances"] += 1
                sep = sep_of[a]
                ab = sep + sep.join(strnames[v] for v in m.path(b))
                pa, pb = m.path(a), m.path(b)
                k = 0
                while k < min(len(pa), len(pb)) and pa[k] == pb[k]:
                    k += 1
                rel = sep.join([".."] * (len(pa) - k) + [strnames[v] for v in pb[k:]])
                for what, p in (("absolute path", ab), ("walk path", rel)):
                    try:
                        got = idm(r.get(nodes[a], p))
                    except Exception as exc:  # noqa
                        got = "%s: %s" % (type(exc).__name__, exc)
                    t.c["evaluations"] += 1
                    if got != b:
                        t.violation("C07: get(m, %s of n) is not n" % what,
                                    dict(ctx, engine="E2", module=MOD, start=a, target=b, path=p, ignorecase=ic, relax=False,
                                         expected=b, observed=got))
    t.sample({"shape": shape, "names": list(names), "config": cfg, "paths": paths[:6] + paths[-3:]}, cap=1)


def rename_histories(t, m, nodes, strnames, sep, attr, idm, ctx):
    """One Resolver object used before and after a rename: the second answer must follow the new names."""
    import anytree

    paths = paths_for(strnames, sep, 2)
    alphabet = sorted(set(strnames)) + ["zz"]
    for ic, rx in ((False, False), (True, True)):
        for i in range(m.n):
            for newname in alphabet:
                if newname == strnames[i]:
                    continue
                r = anytree.Resolver(attr, ignorecase=ic, relax=rx)
                before = []
                for start in range(m.n):
                    for path in paths:
                        before.append(_get(r, nodes[start], path, idm))
                old = strnames[i]
                setattr(nodes[i], attr, newname)
                strnames[i] = newname
                try:
                    for start in range(m.n):
                        for path in paths:
                            exp = ref_get(m, strnames, start, path, sep, ic)
                            want = (("none", None) if rx else exp) if exp[0] == "error" else exp
                            got = _get(r, nodes[start], path, idm)
                            t.c["evaluations"] += 1
                            t.c["calls_after_rename"] += 1
                            if got != want:
                                t.violation("C07: get(%r) on a re-used Resolver after renaming node %d to %r: expected %s, observed %s" % (
                                    path, i, newname, want, got),
                                    dict(ctx, engine="E2", module=MOD, history="rename", renamed=[i, old, newname], start=start,
                                         path=path, ignorecase=ic, relax=rx, expected=want, observed=got))
                                return
                finally:
                    setattr(nodes[i], attr, old)
                    strnames[i] = old


def _get(r, node, path, idm):
    import anytree

    try:
        res = r.get(node, path)
        return ("node", idm(res)) if res is not None else ("none", None)
    except anytree.ResolverError as exc:
        return ("error", type(exc).__name__)
    except Exception as exc:  # noqa
        return ("crash", "%s: %s" % (type(exc).__name__, exc))


def job(items, reconf=False):
    t = core.Tally()
    RECONF[0] = reconf
    for shape, names, cfg, maxcomp in items:
        core.guard(t, "C07", {"engine": "E2", "module": MOD, "shape": shape, "names": list(names), "config": cfg},
                   check_tree, t, shape, names, cfg, maxcomp)
    return t


def _tup(x):
    return tuple(_tup(i) for i in x) if isinstance(x, list) else x


def replay(c):
    t = core.Tally()
    only = (c["start"], c["path"], c["ignorecase"], c["relax"]) if "path" in c and "target" not in c and "history" not in c else None
    RECONF[0] = bool(c.get("reconfigured"))
    if RECONF[0]:
        only = None   # the wrong answer may need the option flips of the calls before it
    check_tree(t, _tup(c["shape"]), tuple(c["names"]), c["config"], 3, only)
    return [v["why"] for v in t.violations]


def plan(tier):
    items = []
    if tier == "quick":
        spec = [(1, 3, NAMES_FULL, "default", 3), (4, 4, NAMES_SMALL, "default", 2),
                (1, 3, NAMES_SMALL, "semicolon", 2), (1, 3, NAMES_SMALL, "doublecolon", 2), (1, 3, NAMES_SMALL, "customattr", 2),
                (1, 3, NAMES_SMALL, "missingattr", 2), (1, 3, NAMES_SMALL, "intvalues", 2),
                (1, 3, NAMES_SMALL, "falsy", 2), (1, 3, NAMES_SMALL, "eqhash", 2), (1, 3, NAMES_SMALL, "falsyvalues", 2), (1, 3, NAMES_SMALL, "norepr", 2),
                (1, 3, ("a", "A", "b"), "wordsep", 2), (1, 3, ("a", "A", "b"), "lettersep", 2), (1, 3, ("a", "A", "b"), "tuplenode", 2), (1, 4, ("a", "A", "b"), "mixedsep", 2),
                (2, 3, ("a", "a;b", "b"), "semicolon", 3), (5, 5, ("a", "b"), "doublecolon", 2)]
    else:
        spec = [(1, 4, NAMES_FULL, "default", 3), (5, 5, NAMES_SMALL, "default", 2)] + \
               [(1, 3, NAMES_FULL, c, 3) for c in CONFIGS if c != "default"] + \
               [(4, 4, NAMES_SMALL, c, 2) for c in CONFIGS if c != "default"] + [(6, 6, ("a", "b"), "doublecolon", 2)]
    for lo, hi, alphabet, cfg, maxcomp in spec:
        for n in range(lo, hi + 1):
            for s in tree.plane_trees(n):
                for names in itertools.product(alphabet, repeat=n):
                    items.append((s, names, cfg, maxcomp))
    return items


def run(tier):
    items = plan(tier)
    t = core.Tally()
    core.run_pool([(MOD, "job", {"items": c}) for c in core.chunks(items[::-1], core.NPROC * 12)] + [("mc.capacity", "job", {"pid": "C07"}), ("mc.positional", "job", {"pid": "C07"})], 0, into=t)
    core.run_pool([(MOD, "job", {"items": c, "reconf": True}) for c in core.chunks(items[:200], core.NPROC)], 1, into=t)
    core.run_pool([(MOD, "job", {"items": c, "reconf": True}) for c in core.chunks(items[::7], core.NPROC * 4)], 0, into=t)
    cov = {
        "states": t.c["states"], "transitions": t.c["evaluations"], "traces_validated_against_impl": t.c["evaluations"],
        "evaluations": t.c["evaluations"], "distinct_nontrivial": t.c["nontrivial"],
        "rule": "ordered trees x every name assignment over the alphabet (duplicates among siblings, case pairs, wildcard "
                "characters, the other class's separator, '.') x start x every path of 1..3 components over {names, unknown, "
                "'..', '.', ''} relative and absolute x ignorecase x relax x 13 separator/pathattr/value/node-class configurations, against a "
                "reference step interpreter (exact node, exact error class, None when relaxed); one Resolver object used before "
                "and after every single rename of a node (re-use histories); round-trip theorems on "
                "sibling-unique ordinary names; non-trivial = the path leads to another node than the start node",
        "bounds": {"trees": len(items), "tier": tier},
    }
    return {"tally": t, "coverage": cov,
            "guards": ("positional_calls", "reconfigured_resolver_trees", "capacity_checks", "nontrivial", "err:RootResolverError", "err:ChildResolverError", "err:ResolverError", "theorem_instances",
                       "calls_after_rename"),
            "assumptions": ["ASCII case folding only (str.upper on the alphabet)",
                            "names '', '.', '..' and names containing the separator are unreachable by construction and excluded "
                            "from the round-trip theorems only"]}
