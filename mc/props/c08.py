"""C08 - Resolver.glob returns exactly the nodes a wildcard pattern denotes
(E2: pattern semantics against a recursive reference with its own wildcard matcher;
 E3: breadth-first exploration of glob call histories - the shared compiled-pattern cache is unobservable)."""
import itertools

from .. import core, tree

MOD = "mc.props.c08"
NAMES_Q = ("a", "A", "a.b", "b", "[a]")
NAMES_T = ("a", "A", "a.b", "b", "a+", "[a]", "(a", "a\nb", "ab")
COMPS = ("x", "*", "a*", "?", "**", "..", ".", "", "A?", "*b")


def wmatch(name, pat, ignorecase):
    """Wildcard match by dynamic programming (no re): '*' any run, '?' one character, anchored."""
    if ignorecase:
        name, pat = name.lower(), pat.lower()
    n, p = len(name), len(pat)
    ok = [[False] * (n + 1) for _ in range(p + 1)]
    ok[0][0] = True
    for i in range(1, p + 1):
        if pat[i - 1] == "*":
            ok[i][0] = ok[i - 1][0]
        for j in range(1, n + 1):
            c = pat[i - 1]
            if c == "*":
                ok[i][j] = ok[i - 1][j] or ok[i][j - 1]
            elif c == "?":
                ok[i][j] = ok[i - 1][j - 1]
            else:
                ok[i][j] = ok[i - 1][j - 1] and c == name[j - 1]
    return ok[p][n]


def is_wild(comp):
    return "*" in comp or "?" in comp


class Ref(object):
    """Reference denotation D(node, parts) with book-keeping of genuine dead ends."""

    def __init__(self, m, names, ignorecase):
        self.m, self.names, self.ic = m, names, ignorecase
        self.dead = set()

    def D(self, node, parts):
        if not parts:
            return {node}
        c, rest = parts[0], parts[1:]
        m = self.m
        if c == "..":
            if m.par[node] is None:
                self.dead.add("RootResolverError")
                return set()
            return self.D(m.par[node], rest)
        if c in ("", "."):
            return self.D(node, rest)
        if c == "**":
            out = set()
            for sub in m.pre(node):
                out |= self.D(sub, rest)
            return out
        kids = [k for k in m.ch[node] if wmatch(self.names[k], c, self.ic)]
        if not kids and not is_wild(c):
            self.dead.add("ChildResolverError")
        out = set()
        for k in kids:
            out |= self.D(k, rest)
        return out

    def glob(self, start, path, sep):
        parts = path.split(sep)
        node = start
        if path.startswith(sep):
            node = self.m.root(start)
            parts.pop(0)
            if parts[0] == "" or not wmatch(self.names[node], parts[0], self.ic):
                self.dead.add("ResolverError")
                return set()
            parts.pop(0)
        return self.D(node, tuple(parts))


def patterns_for(names, sep, maxcomp, comps=COMPS):
    alphabet = sorted(set(names)) + list(comps)
    alphabet = [c for c in alphabet if sep not in c]
    out = set()
    for k in range(1, maxcomp + 1):
        for combo in itertools.product(alphabet, repeat=k):
            rel = sep.join(combo)
            out.add(rel)
            if combo[0] != "**":  # '**' as root component: the statement is silent
                out.add(sep + rel)
    return sorted(out)


def classify(path, sep):
    parts = path.split(sep)
    if path.startswith(sep):
        parts = parts[2:]
    has_rec = "**" in parts
    has_up = ".." in parts
    seen_name = False
    up_after_name = False
    for c in parts:
        if c == "..":
            if seen_name:
                up_after_name = True
        elif c not in ("", ".", "**"):
            # a name or wildcard (name pattern) component; '**' is the recursive component, whose matches the
            # statement counts once ("the current node and all of its descendants")
            seen_name = True
    wildfree = not any(is_wild(c) for c in path.split(sep))
    return has_rec, has_up, up_after_name, wildfree


def call(resolver, node, path, idm):
    import anytree

    try:
        r = resolver.glob(node, path)
        if not isinstance(r, list):
            return ("crash", "result is %s, not a list" % type(r).__name__)
        return ("list", idm.seq(r))
    except anytree.ResolverError as exc:
        return ("error", type(exc).__name__)
    except Exception as exc:  # noqa
        return ("crash", "%s: %s" % (type(exc).__name__, exc))


COMPS_DEEP = ("x", "*", "**", "..", "?")   # reduced component alphabet for patterns of 4 components


_SEPCLS = {}


def _sep_factory(sep):
    import anytree

    if sep not in _SEPCLS:
        def init(self, name):
            self.name = name
        _SEPCLS[sep] = type("SepNode", (anytree.NodeMixin,), {"separator": sep, "__init__": init})
    return lambda i, name: _SEPCLS[sep](name)


def check_tree(t, shape, names, maxcomp, only=None, kind="user"):
    import anytree

    m = tree.Model.from_shape(shape)
    sep = "/"
    names0 = names
    if kind == "tuplenode":
        import collections

        if "tuple" not in _SEPCLS:
            base = collections.namedtuple("Entry", "kind size")

            def init(self, name):
                self.name = name
            _SEPCLS["tuple"] = type("TupleNode", (base, anytree.NodeMixin), {"__new__": lambda c, name: base.__new__(c, "entry", 0), "__init__": init})
        nodes = tree.build(m, lambda i, name: _SEPCLS["tuple"](name), "topdown", names=list(names))
    elif kind == "falsyvalues":
        # name values that are not strings and falsy: matched through their str() like any other value
        vals = [{"a": 0, "A": False, "b": 0.0}.get(x) for x in names]
        nodes = tree.build(m, tree.default_factory("user"), "topdown", names=list(names))
        for nd, v in zip(nodes, vals):
            nd.name = v
        names = tuple(str(v) for v in vals)
    elif kind.startswith("sep:"):
        sep = kind[4:]
        nodes = tree.build(m, _sep_factory(sep), "topdown", names=list(names))
    else:
        nodes = tree.build(m, tree.default_factory(kind), "topdown", names=list(names))
    idm = tree.IdMap(nodes)
    pats = patterns_for(names, sep, maxcomp) if maxcomp <= 3 else patterns_for(names, sep, maxcomp, COMPS_DEEP)
    res = {(ic, rx): anytree.Resolver("name", ignorecase=ic, relax=rx) for ic in (False, True) for rx in (False, True)}
    ctx = {"shape": shape, "names": list(names0), "kind": kind}
    if RECONF[0]:
        res = Reconfigured(anytree, "name", nodes[0])
        ctx["reconfigured"] = True
        t.c["reconfigured_resolver_trees"] += 1
    for start in range(m.n):
        t.c["states"] += 1
        pre_rank = {v: k for k, v in enumerate(m.pre(m.root(start)))}
        for path in pats:
            has_rec, has_up, up_after_name, wildfree = classify(path, sep)
            for ic in (False, True):
                if only and (start, path, ic) != only:
                    continue
                ref = Ref(m, names, ic)
                D = ref.glob(start, path, sep)
                relaxed = call(res[(ic, True)], nodes[start], path, idm)
                strict = call(res[(ic, False)], nodes[start], path, idm)
                t.c["evaluations"] += 2
                why = None
                if relaxed[0] != "list":
                    why = "relaxed glob raised / misbehaved: %s" % (relaxed[1],)
                elif set(relaxed[1]) != D:
                    why = "relaxed result set differs from the denotation"
                elif not has_rec and not has_up and relaxed[1] != sorted(relaxed[1], key=lambda v: pre_rank.get(v, -1)):
                    why = "relaxed result is not in tree pre-order"
                elif not up_after_name and len(set(relaxed[1])) != len(relaxed[1]):
                    why = "relaxed result contains duplicates"
                elif strict[0] == "list":
                    if strict[1] != relaxed[1]:
                        why = "strict result differs from the relaxed list"
                elif strict[0] == "crash" and kind == "norepr" and ref.dead:
                    pass  # building the strict error message needs the repr of the node, which this class refuses
                elif strict[0] == "error":
                    if strict[1] not in ref.dead:
                        why = "strict glob raised %s without a genuine dead end of that kind (dead ends met: %s)" % (
                            strict[1], sorted(ref.dead))
                else:
                    why = "strict glob crashed: %s" % (strict[1],)
                if why is None and wildfree and kind != "norepr" and all(len({(s.upper() if ic else s) for s in (names[c] for c in m.ch[v])}) == len(m.ch[v])
                                                    for v in range(m.n)):
                    # wildcard-free path over sibling-unique names: glob agrees with get
                    try:
                        g = ("list", [idm(res[(ic, False)].get(nodes[start], path))])
                    except anytree.ResolverError as exc:
                        g = ("error", type(exc).__name__)
                    t.c["get_agreement_checked"] += 1
                    if g != strict:
                        why = "strict glob %s disagrees with get %s on a wildcard-free path" % (strict, g)
                if len(D) > 1:
                    t.c["many_matches"] += 1
                if D and D != {start}:
                    t.c["nontrivial"] += 1
                if strict[0] == "error":
                    t.c["strict_raises:" + strict[1]] += 1
                if why:
                    # does the wrong answer depend on earlier calls in this process (the shared pattern cache)?
                    _reset_cache()
                    again = (call(res[(ic, True)], nodes[start], path, idm), call(res[(ic, False)], nodes[start], path, idm))
                    hist = again != (relaxed, strict)
                    t.violation("C08: glob(%r): %s%s" % (path, why, " [only after earlier calls: the result depends on call history]" if hist else ""),
                                dict(ctx, engine="E2", module=MOD, part="semantics", start=start, path=path, ignorecase=ic,
                                     denotation=sorted(D), relaxed=relaxed, strict=strict, history_dependent=hist))
        t.obs((shape, names, start, t.c["evaluations"]))
    if not only and kind == "user" and 2 <= m.n <= 3 and maxcomp >= 3 and not RECONF[0]:
        # history on the SAME resolver objects: every pattern above has been asked; now one child is renamed (same children,
        # same order) and short patterns are asked again - the answers follow the new names
        for i in range(1, m.n):
            old_name = nodes[i].name
            for new_name in ("zz", names[0]):
                if new_name == old_name:
                    continue
                nodes[i].name = new_name
                names2 = tuple(new_name if v == i else names[v] for v in range(m.n))
                bad = None
                for start in range(m.n):
                    for path in patterns_for(names2, sep, 1) + patterns_for(names, sep, 1):
                        for ic in (False, True):
                            D = Ref(m, names2, ic).glob(start, path, sep)
                            relaxed = call(res[(ic, True)], nodes[start], path, idm)
                            t.c["evaluations"] += 1
                            t.c["calls_after_rename"] += 1
                            if relaxed[0] != "list" or set(relaxed[1]) != D:
                                bad = (start, path, ic, relaxed, sorted(D))
                                break
                        if bad:
                            break
                    if bad:
                        break
                nodes[i].name = old_name
                if bad:
                    t.violation("C08: glob(%r) on a re-used Resolver after renaming node %d to %r does not follow the new names" % (bad[1], i, new_name),
                                dict(ctx, engine="E2", module=MOD, part="semantics", history="rename", renamed=[i, new_name], start=bad[0], path=bad[1],
                                     ignorecase=bad[2], relaxed=bad[3], denotation=bad[4], strict=None))
                    return
    if not only:
        t.sample({"shape": shape, "names": list(names), "patterns": pats[:5] + pats[-5:]}, cap=1)


RECONF = [False]   # set per job: all four option settings are served by ONE Resolver re-configured through its public attributes


class Reconfigured(object):
    """resolvers[(ignorecase, relax)] -> always the same Resolver object, whose public attributes pathattr / ignorecase /
    relax are assigned just before each call.  It was constructed with the opposite settings and has been used once."""

    def __init__(self, anytree, attr, node):
        self.attr = attr
        self.r = anytree.Resolver("no_such_attribute", ignorecase=True, relax=True)
        self.r.get(node, "x")
        self.r.glob(node, "x*")

    def __getitem__(self, key):
        self.r.pathattr, self.r.ignorecase, self.r.relax = self.attr, key[0], key[1]
        return self.r


# names whose upper / lower / folded spellings are not in one-to-one correspondence (str.upper() maps 'ß' to 'SS', the
# Kelvin sign folds to 'k', dotted / dotless i, ligatures, final sigma)
UNI_POOL = ("straße", "STRASSE", "\u212a", "k", "\u0131", "I", "\u0130", "i\u0307", "\u01c6", "\u01c5", "\ufb01", "FI", "\u0149", "\u02bcN",
            "\u03c2", "\u03a3", "a\nb", "a.b")


def job_unicode():
    """Agreement clause only: on wildcard-free paths over sibling-unique names strict glob returns the node get returns
    (or raises the same error class), relaxed glob is empty exactly when relaxed get is None - for names outside ASCII,
    where 'case-insensitively' has more than one possible meaning and the statement fixes none of them."""
    import anytree

    t = core.Tally()

    def variants(z):
        return sorted({z, z.upper(), z.lower(), z.casefold()})

    def run():
        for w in UNI_POOL[:6] + ("r",):
            for x in UNI_POOL:
                one_tree(w, x)
                t.c["states"] += 1
                t.obs(("unicode", w, x, t.c["nontrivial"]))

    def one_tree(w, x):
        if True:
            if True:
                root = anytree.Node(w)
                child = anytree.Node(x, parent=root)
                leaf = anytree.Node("leaf", parent=child)
                lab = {id(root): 0, id(child): 1, id(leaf): 2}
                paths = []
                for z in UNI_POOL:
                    paths += variants(z)
                paths = sorted(set(paths))
                paths += ["/" + v + "/" + z for v in variants(w) for z in variants(x)] + [z + "/leaf" for z in variants(x)] + ["/" + v for v in variants(x)]
                for ic in (False, True):
                    for rx in (False, True):
                        r = anytree.Resolver("name", ignorecase=ic, relax=rx)
                        for path in paths:
                            for start in (root, leaf) if path.startswith("/") else (root,):
                                try:
                                    g = r.get(start, path)
                                    g = ("node", lab[id(g)]) if g is not None else ("none", None)
                                except anytree.ResolverError as exc:
                                    g = ("error", type(exc).__name__)
                                try:
                                    s_ = r.glob(start, path)
                                    s_ = ("node", lab[id(s_[0])]) if len(s_) == 1 else (("none", None) if not s_ else ("many", len(s_)))
                                except anytree.ResolverError as exc:
                                    s_ = ("error", type(exc).__name__)
                                t.c["evaluations"] += 1
                                t.c["non_ascii_agreement_checks"] += 1
                                if g[0] == "node":
                                    t.c["nontrivial"] += 1
                                if g != s_:
                                    t.violation("C08: glob(%r) and get(%r) disagree on a wildcard-free path over sibling-unique names "
                                                "(ignorecase=%s, relax=%s): get %s, glob %s" % (path, path, ic, rx, g, s_),
                                                {"engine": "E2", "module": MOD, "part": "unicode", "root": w, "child": x, "path": path,
                                                 "ignorecase": ic, "relax": rx, "get": g, "glob": s_})
                                    return
    core.guard(t, "C08", {"engine": "E2", "module": MOD, "part": "unicode"}, run, _limit=120)
    return t


def job_wildcards():
    """Every pattern of length <= 4 over {a, b, *, ?} against every name of length <= 3 over {a, b} (plus upper-case
    twins): glob(root, pattern) on a root with one child per name must select exactly the names the pattern denotes."""
    import anytree

    t = core.Tally()

    def run():
        names = [""] if False else []
        for k in (1, 2, 3):
            names += ["".join(x) for x in itertools.product("ab", repeat=k)]
        names += ["A", "aB", "ABA"]
        root = anytree.Node("root")
        kids = [anytree.Node(nm, parent=root) for nm in names]
        pats = []
        for k in (1, 2, 3, 4):
            pats += ["".join(x) for x in itertools.product("ab*?", repeat=k)]
        pats = [p_ for p_ in pats if is_wild(p_) and p_ != "**"]
        for ic in (False, True):
            r = anytree.Resolver("name", ignorecase=ic, relax=True)
            for pat in pats:
                got = [nd.name for nd in r.glob(root, pat)]
                exp = [nm for nm in names if wmatch(nm, pat, ic)]
                t.c["evaluations"] += 1
                t.c["wildcard_pattern_checks"] += 1
                if exp:
                    t.c["nontrivial"] += 1
                if got != exp:
                    t.violation("C08: glob(%r) over all short names selects %s, the pattern denotes %s" % (pat, got, exp),
                                {"engine": "E2", "module": MOD, "part": "wildcards", "path": pat, "ignorecase": ic, "expected": exp, "observed": got})
                    return
        t.c["states"] += 1
        t.obs(("wildcards", len(pats), len(names)))
    core.guard(t, "C08", {"engine": "E2", "module": MOD, "part": "wildcards"}, run, _limit=120)
    return t


def job(items, reconf=False):
    t = core.Tally()
    RECONF[0] = reconf
    for item in items:
        shape, names, maxcomp = item[:3]
        kind = item[3] if len(item) > 3 else "user"
        core.guard(t, "C08", {"engine": "E2", "module": MOD, "part": "semantics", "shape": shape, "names": list(names), "kind": kind},
                   check_tree, t, shape, names, maxcomp, None, kind)
    return t


# ---------------------------------------------------------------------------------------------
# E3: cache-history explorer

E3_NAMES = ("r", "a", "A", "ab", "b", "a")       # tree: r -> (a -> (ab, b), A -> (a))
E3_SHAPE = (((), ()), ((),))
E3_MENU = [(p, ic) for p in ("A*", "a*", "a", "A", "?", "**", "*/a", "**/A?") for ic in (False, True)]
E3_GETS = [("get", "a*", True), ("get", "a*", False), ("get", "?", True)]   # no node is literally named like that: None


def _cache():
    import anytree

    return getattr(anytree.Resolver, "_match_cache", None)


def _reset_cache():
    c = _cache()
    if isinstance(c, dict):
        c.clear()


def _cache_key():
    c = _cache()
    if isinstance(c, dict):
        try:
            return frozenset(repr(k) for k in c.keys())
        except Exception:  # noqa
            return None
    return None


def e3_apply(ev, nodes, resolvers):
    """One event = one real glob call (or k filler calls).  Returns the observable result."""
    if ev[0] == "fill":
        for k in range(ev[1]):
            resolvers[(False, True)].glob(nodes[0], "f%d*" % k)
        return None
    pat, ic = ev[1], ev[2]
    if ev[0] == "get":
        # get() with a component that LOOKS like a pattern (it is a literal for get): whatever get remembers about it
        # must not leak into glob
        return resolvers[(ic, True)].get(nodes[0], pat)
    return resolvers[(ic, True)].glob(nodes[0], pat)


def e3_explore(depth, first_events):
    """BFS over call histories starting with the given first events; de-duplicate on the cache key set."""
    import anytree

    t = core.Tally()
    m = tree.Model.from_shape(E3_SHAPE)
    nodes = tree.build(m, tree.default_factory("user"), "topdown", names=list(E3_NAMES))
    idm = tree.IdMap(nodes)
    resolvers = {(ic, rx): anytree.Resolver("name", ignorecase=ic, relax=rx) for ic in (False, True) for rx in (False, True)}
    maxcache = getattr(anytree.resolver, "_MAXCACHE", 20)
    events = [("glob", p, ic) for p, ic in E3_MENU] + [("fill", k) for k in (maxcache - 2, maxcache - 1, maxcache)] + E3_GETS
    expected = {}
    for p, ic in E3_MENU:
        expected[(p, ic)] = Ref(m, E3_NAMES, ic).glob(0, p, "/")

    def run(hist):
        _reset_cache()
        out = None
        for ev in hist:
            out = e3_apply(ev, nodes, resolvers)
        return out

    seen = set()
    frontier = [(ev,) for ev in first_events]
    level = 1
    while frontier and level <= depth:
        nxt = []
        for hist in frontier:
            out = run(hist)
            key = _cache_key()
            ev = hist[-1]
            t.c["transitions"] += 1
            if ev[0] == "get":
                t.c["evaluations"] += 1
                t.c["get_calls_in_cache_histories"] += 1
                if out is not None:
                    t.violation("C08: relaxed get(%r) returns a node although no child has that literal name (history-dependent)" % ev[1],
                                {"engine": "E3", "module": MOD, "part": "cache", "history": [list(e) for e in hist],
                                 "expected": None, "observed": idm(out)})
            if ev[0] == "glob":
                t.c["evaluations"] += 1
                got = idm.seq(out)
                exp = expected[(ev[1], ev[2])]
                if any(e[0] == "fill" for e in hist[:-1]):
                    t.c["calls_after_fill"] += 1
                if any(e[0] == "glob" and e[1].lower() == ev[1].lower() and e[2] != ev[2] for e in hist[:-1]):
                    t.c["calls_after_colliding_pattern"] += 1
                if set(got) != exp or len(set(got)) != len(got):
                    t.violation("C08: glob result depends on earlier calls (shared pattern cache is observable)",
                                {"engine": "E3", "module": MOD, "part": "cache", "history": [list(e) for e in hist],
                                 "expected": sorted(exp), "observed": got})
            if key is None:
                key = hist  # cache not observable for de-duplication: no merging
            t.obs((hist[-1], sorted(key) if isinstance(key, frozenset) else key))
            if key in seen:
                t.c["merged_states"] += 1
                continue
            seen.add(key)
            if isinstance(key, frozenset) and len(key) >= maxcache:
                t.c["states_with_full_cache"] += 1
            for ev2 in events:
                nxt.append(hist + (ev2,))
        frontier = nxt
        level += 1
    t.c["states"] += len(seen)
    t.sample({"history": [list(e) for e in (frontier[0] if frontier else first_events[:1])], "tree": list(E3_NAMES)}, cap=1)
    return t


def e3_events():
    import anytree

    maxcache = getattr(anytree.resolver, "_MAXCACHE", 20)
    return [("glob", p, ic) for p, ic in E3_MENU] + [("fill", k) for k in (maxcache - 2, maxcache - 1, maxcache)] + E3_GETS


def _tup(x):
    return tuple(_tup(i) for i in x) if isinstance(x, list) else x


def replay(c):
    t = core.Tally()
    if c.get("part") == "unicode":
        return [v["why"] for v in job_unicode().violations]
    if c.get("part") == "wildcards":
        return [v["why"] for v in job_wildcards().violations]
    if c.get("part") == "cache":
        import anytree

        m = tree.Model.from_shape(E3_SHAPE)
        nodes = tree.build(m, tree.default_factory("user"), "topdown", names=list(E3_NAMES))
        idm = tree.IdMap(nodes)
        resolvers = {(ic, rx): anytree.Resolver("name", ignorecase=ic, relax=rx) for ic in (False, True) for rx in (False, True)}
        _reset_cache()
        out = None
        hist = _tup(c["history"])
        for ev in hist:
            out = e3_apply(ev, nodes, resolvers)
        if hist[-1][0] == "get":
            print("history:", hist, "observed:", idm(out), "expected: None")
            return ["relaxed get returns a node although no child has that literal name (history-dependent)"] if out is not None else []
        exp = Ref(m, E3_NAMES, hist[-1][2]).glob(0, hist[-1][1], "/")
        got = idm.seq(out)
        print("history:", hist, "observed:", got, "expected:", sorted(exp))
        return ["glob result depends on earlier calls"] if set(got) != exp or len(set(got)) != len(got) else []
    if c.get("history_dependent"):
        # the recorded single call is fine in a fresh process; re-run the cache-history exploration (depth 3) instead
        for ev in e3_events():
            t.merge(e3_explore(3, [ev]))
            if t.violations:
                print("history found by the cache explorer:", t.violations[0]["case"]["history"])
                break
        return [v["why"] for v in t.violations]
    RECONF[0] = bool(c.get("reconfigured"))
    check_tree(t, _tup(c["shape"]), tuple(c["names"]), 4 if len(c["path"].split("/")) > 4 or c["path"].count("/") >= 3 else 3,
               None if RECONF[0] or c.get("history") == "rename" else (c["start"], c["path"], c["ignorecase"]), c.get("kind", "user"))
    return [v["why"] for v in t.violations]


def plan(tier):
    items = []
    spec = [(1, 3, NAMES_Q, 3), (4, 4, ("a", "A", "[a]"), 2), (1, 3, ("a\nb", "A\nb", "a"), 2), (4, 5, ("b",), 3)] if tier == "quick" else \
           [(1, 3, NAMES_Q, 3), (4, 4, NAMES_Q, 3), (1, 3, NAMES_T, 2), (5, 5, ("a", "A"), 2)]
    for lo, hi, alphabet, maxcomp in spec:
        for n in range(lo, hi + 1):
            for s in tree.plane_trees(n):
                for names in itertools.product(alphabet, repeat=n):
                    items.append((s, names, maxcomp))
    # patterns of 4 components over a reduced alphabet (errors below wildcards need depth)
    for n in range(1, 4 if tier == "quick" else 5):
        for s in tree.plane_trees(n):
            for names in itertools.product(("a", "b"), repeat=n):
                if tier == "thorough" or len(set(names)) == 1 or n <= 2:
                    items.append((s, names, 4))
    # node classes with their own truth value / value semantics
    for kind in ("falsy", "eqhash", "falsylight", "norepr", "sep:::", "sep:|", "sep:->", "tuplenode", "falsyvalues"):
        for n in range(1, 4 if tier == "quick" else 5):
            for s in tree.plane_trees(n):
                for names in itertools.product(("a", "A", "b"), repeat=n):
                    items.append((s, names, 2, kind))
    # names containing '/' where the class separator is another one: '/' is an ordinary character there
    for kind in ("sep:|", "sep:::"):
        for n in range(1, 4):
            for s in tree.plane_trees(n):
                for names in itertools.product(("a/b", "a", "/"), repeat=n):
                    items.append((s, names, 2, kind))
    return items


def run(tier):
    items = plan(tier)
    t = core.Tally()
    pool = core.Pool(0)
    try:
        pool.run([(MOD, "job", {"items": c}) for c in core.chunks(items[::-1], core.NPROC * 12)] + [("mc.capacity", "job", {"pid": "C08"}), ("mc.positional", "job", {"pid": "C08"}), (MOD, "job_unicode", {}), (MOD, "job_wildcards", {})], into=t)
        sem_states = t.c["states"]
        events = pool.call(MOD, "e3_events")
        depth = 4 if tier == "quick" else 5
        pool.run([(MOD, "e3_explore", {"depth": depth, "first_events": [ev]}) for ev in events], into=t)
    finally:
        pool.close()
    core.run_pool([(MOD, "job", {"items": c, "reconf": True}) for c in core.chunks(items[:100], core.NPROC)], 1, into=t)
    core.run_pool([(MOD, "job", {"items": c, "reconf": True}) for c in core.chunks(items[::9], core.NPROC * 4)], 0, into=t)
    cov = {
        "states": t.c["states"], "transitions": t.c["evaluations"] + t.c["transitions"],
        "traces_validated_against_impl": t.c["evaluations"],
        "evaluations": t.c["evaluations"], "distinct_nontrivial": t.c["nontrivial"] + t.c["calls_after_fill"] + t.c["calls_after_colliding_pattern"],
        "rule": "semantics: ordered trees x every name assignment (duplicates, case pairs, regex metacharacters) x start x every "
                "pattern of 1..3 components over {names, unknown, '*','a*','?','A?','*b','**','..','.',''} relative and absolute "
                "x ignorecase, relaxed and strict, against a recursive denotation with an own wildcard matcher (set equality, "
                "pre-order and duplicate freedom under the stated side conditions, strict errors justified by dead ends, "
                "agreement with get); cache: breadth-first search over histories of real glob calls (16 pattern/ignorecase "
                "calls + fills of MAXCACHE-2..MAXCACHE entries), depth %d per first event, de-duplicated on the cache key set; "
                "non-trivial = denotation is not just the start node / a call after a fill or a colliding pattern" % depth,
        "bounds": {"semantic_trees": len(items), "semantic_states": sem_states, "history_depth": depth, "cache_states": t.c["states"] - sem_states},
    }
    return {"tally": t, "coverage": cov,
            "guards": ("calls_after_rename", "wildcard_pattern_checks", "get_calls_in_cache_histories", "non_ascii_agreement_checks", "positional_calls", "reconfigured_resolver_trees", "capacity_checks", "nontrivial", "many_matches", "strict_raises:ChildResolverError", "strict_raises:RootResolverError",
                       "strict_raises:ResolverError", "get_agreement_checked", "calls_after_fill", "calls_after_colliding_pattern",
                       "states_with_full_cache", "merged_states"),
            "assumptions": ["'**' directly after the leading separator is excluded (the statement does not say whether the root "
                            "component is a name pattern or the recursive wildcard)", "ASCII case folding only"]}
