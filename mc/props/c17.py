"""C17 - tree operations use node identity only, never user-defined special methods
(E1 lock-step of adversarial node classes against a plain twin, with every special-method invocation recorded;
 complete query vector incl. search and exporters on every reached forest and on larger shapes)."""
from .. import core, e1run, forest, traps, tree

CFG = {"read": True, "nonnode": False, "extras": True}
P2 = ("_pre_detach", "_pre_attach")


def pairs():
    out = []
    for arch in traps.ARCHETYPES:
        out.append(("trap:" + arch, "named"))
        out.append(("trap:light:" + arch, "named:light"))
    for arch in traps.TUPLES:
        out.append(("trap:" + arch, "named"))
    return out


def run(tier):
    cfgs = []
    allpairs = pairs()
    for k, (kind, ref) in enumerate(allpairs):
        extra = {"kind2": ref, "traps": True, "exporters": "light" not in kind}
        deep = tier == "thorough"
        cfgs.append(dict(kind=kind, n=3, cfg=dict(CFG), hidden=False, d=2 if deep else 1, persistent=P2 if deep or k % 3 == 0 else (),
                         assertions=k % 2, judge="c17", extra=dict(extra, queries_after_ops=True)))
        if deep or kind in ("trap:eq", "trap:light:all", "trap:light:eq", "trap:falsy"):
            cfgs.append(dict(kind=kind, n=4, cfg=dict(CFG, extras=deep, read=False), hidden=False, d=1 if deep else 0,
                             assertions=(k + 1) % 2, judge="c17", extra=extra))
    # links to adversarial nodes: a link forwards attribute access to its target whatever the target's truth value is
    for arch in ("falsy", "len0", "eq", "all"):
        cfgs.append(dict(kind="linkto:" + arch, n=3 if tier == "quick" else 4, cfg=dict(CFG, extras=False, read=False), hidden=False, d=0,
                         assertions=0, judge="c17", extra={"kind2": "linkto:named", "traps": True, "exporters": True, "queries_after_ops": True}))
    t, summ = e1run.run_configs(cfgs)
    pool = core.Pool(0)
    try:
        states = forest.discover(pool, "named", 4, dict(CFG, extras=False, read=False), False)
        nshape = 5 if tier == "quick" else 6
        shapes = tree.shapes_upto(nshape, 5)
        for kind, ref in allpairs:
            exporters = "light" not in kind
            pool.run([("mc.lockstep", "state_queries", dict(kind=kind, kind2=ref, n=4, states=s, pid="C17", traps_on=True,
                                                             exporters=exporters)) for s in core.shard(states, core.NPROC * 2)], into=t)
            pool.run([("mc.lockstep", "shape_queries", dict(kind=kind, kind2=ref, shapes=c, pid="C17", traps_on=True,
                                                             exporters=exporters)) for c in core.chunks(shapes, core.NPROC)], into=t)
    finally:
        pool.close()
    cov = {
        "states": t.c["states"], "transitions": t.c["transitions"],
        "traces_validated_against_impl": t.c["lockstep_pairs"] + t.c["query_vectors_compared"],
        "evaluations": t.c["executions"] + t.c["query_vectors_compared"], "distinct_nontrivial": t.c["nontrivial"],
        "programs": len(allpairs),
        "rule": "%d adversarial node classes (archetypes %s on NodeMixin and LightNodeMixin, plus namedtuple-derived NodeMixin classes of width 0, 1, 2; every comparison/hash/bool/container "
                "special method records its invocation and answers adversarially) explored in lock-step with a plain twin: every "
                "(forest, structural call, fault plan) must give the same outcome, forest and hook log, and the complete query "
                "vector (navigation, util, iterators, Walker, search, Resolver, RenderTree, Dot/Mermaid/Dict/Json exporters) must be "
                "equal on every forest of 4 labelled nodes and all shapes with %d nodes, with zero recorded invocations; "
                "non-trivial = the call changed the forest or raised" % (len(allpairs), ", ".join(traps.ARCHETYPES), nshape),
        "bounds": summ + [{"state_queries_N": 4, "forest_states": len(states), "extra_shapes": len(shapes), "class_pairs": len(allpairs)}],
    }
    return {"tally": t, "coverage": cov, "guards": ("lockstep_pairs", "query_vectors_compared", "nontrivial"),
            "assumptions": ["the harness itself never applies ==, in, bool(), len(), hash() or iteration to a node (labels via id())",
                            "7 archetypes stand for 'any subset of overridden special methods'"]}
