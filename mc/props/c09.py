"""C09 - RenderTree draws every tree faithfully; prefixes encode each node's position
(E2: shapes x start x styles x childiter x maxlevel; rows vs. reference, decoder reconstructs the shape from the
text alone; str()/by_attr() line layout; Node/AnyNode/SymlinkNode reprs)."""
import itertools

from .. import core, tree

MOD = "mc.props.c09"


def styles():
    from anytree import AbstractStyle, AsciiStyle, ContRoundStyle, ContStyle, DoubleStyle

    return {
        "ascii": AsciiStyle(), "cont": ContStyle(), "round": ContRoundStyle(), "double": DoubleStyle(),
        "ascii-class": AsciiStyle,  # a style may be passed as a class
        "w1": AbstractStyle("!", "+", "`"), "w3": AbstractStyle("|..", "+--", "`--"),
    }


def childiters(idm):
    key = lambda nd: (idm(nd) * 7) % 5  # noqa - disagrees with tree order
    return {
        "list": (list, lambda cs: list(cs)),
        "reversed": (reversed, lambda cs: list(cs)[::-1]),
        "sorted": (lambda cs: sorted(cs, key=key), lambda cs: sorted(cs, key=lambda v: (v * 7) % 5)),
        "drop_last": (lambda cs: list(cs)[:-1], lambda cs: list(cs)[:-1]),
        "drop_second": (lambda cs: [c for k, c in enumerate(cs) if k != 1], lambda cs: [c for k, c in enumerate(cs) if k != 1]),
        "generator": (lambda cs: (c for c in cs), lambda cs: list(cs)),
    }


def ref_rows(m, start, order, maxlevel, style):
    """[(pre, fill, index)] from the definition."""
    vert, cont, end = style.vertical, style.cont, style.end
    empty = " " * len(end)
    rows = []
    limit = max(maxlevel, 1) if maxlevel is not None else None

    def go(v, conts, depth):
        if not conts:
            rows.append(("", "", v))
        else:
            segs = [vert if c else empty for c in conts]
            rows.append(("".join(segs[:-1]) + (cont if conts[-1] else end), "".join(segs), v))
        if limit is not None and depth + 1 >= limit:
            return
        kids = order(m.ch[v])
        for k, c in enumerate(kids):
            go(c, conts + (k < len(kids) - 1,), depth + 1)

    go(start, (), 0)
    return rows


def decode(rows, style):
    """Rebuild (parent, is_last) of every row from pre alone."""
    w = len(style.end)
    out = []
    stack = []  # (depth, row index)
    for k, (pre, fill, v) in enumerate(rows):
        if len(pre) % w or len(fill) != len(pre):
            return None
        d = len(pre) // w
        if d:
            br = pre[-w:]
            if br not in (style.cont, style.end):
                return None
        while stack and stack[-1][0] >= d:
            stack.pop()
        if d and (not stack or stack[-1][0] != d - 1):
            return None
        out.append((stack[-1][1] if d else None, d, (pre[-w:] == style.end) if d else None))
        stack.append((d, k))
    return out


def lines_of(value):
    if isinstance(value, (list, tuple)):
        return [("%s" % (x,)) for x in value] or [""]
    return str(value).splitlines() or [""]


class _Abs(object):
    pass


def check_shape(t, shape, style_names=None, iter_names=None, text=True):
    import anytree

    m = tree.Model.from_shape(shape)
    sty = styles()
    kindcycle = ("user", "light", "node", "weird", "tuplenode", "tuple0")
    for start in range(m.n):
        kind = kindcycle[start % len(kindcycle)]
        nodes = tree.build(m, tree.default_factory(kind), "topdown")
        idm = tree.IdMap(nodes)
        its = childiters(idm)
        t.c["states"] += 1
        h = m.height(start)
        # ONE RenderTree constructed for another node with other settings, iterated once, then re-configured through its
        # public attributes before each use: must render like a freshly constructed one
        rrt = anytree.RenderTree(nodes[0], style=anytree.DoubleStyle(), childiter=lambda cs: list(cs)[:1], maxlevel=1)
        list(rrt)
        for sname, style in sty.items():
            if style_names and sname not in style_names:
                continue
            sobj = style() if isinstance(style, type) else style
            for iname, (real_it, model_it) in its.items():
                if iter_names and iname not in iter_names:
                    continue
                for ml in [None, -1, 0] + list(range(1, h + 2)):
                    exp = ref_rows(m, start, model_it, ml, sobj)
                    rt = anytree.RenderTree(nodes[start], style=style, childiter=real_it, maxlevel=ml)
                    got = [(r.pre, r.fill, idm(r.node)) for r in rt]
                    t.c["evaluations"] += 1
                    t.obs((shape, start, sname, iname, ml, got))
                    if len(exp) > 1:
                        t.c["nontrivial"] += 1
                    if iname != "list" and [r[2] for r in exp] != [r[2] for r in ref_rows(m, start, list, ml, sobj)]:
                        t.c["childiter_changes_rows"] += 1
                    if ml is not None and 1 <= ml <= h:
                        t.c["maxlevel_cuts"] += 1
                    why = None
                    rrt.node, rrt.style, rrt.childiter, rrt.maxlevel = nodes[start], sobj, real_it, ml
                    got2 = [(r.pre, r.fill, idm(r.node)) for r in rrt]
                    t.c["reconfigured_renderings"] += 1
                    if got != exp:
                        why = "rows differ from the definition"
                    elif got2 != exp:
                        why = "rows of a RenderTree re-configured through its public attributes differ from a fresh one's"
                        got = got2
                    else:
                        dec = decode(got, sobj)
                        if dec is None:
                            why = "prefixes cannot be decoded"
                        else:
                            # faithfulness: the shape rebuilt from the text equals the rendered subtree
                            rendered_parent = {}
                            for k, (p, d, last) in enumerate(dec):
                                rendered_parent[got[k][2]] = None if p is None else got[p][2]
                            for k, (p, d, last) in enumerate(dec):
                                v = got[k][2]
                                if k and m.par[v] != rendered_parent[v]:
                                    why = "decoded parent of node %s is wrong" % v
                                if k:
                                    later_sibling = any(dec[j][0] == p for j in range(k + 1, len(dec)))
                                    if last == later_sibling:
                                        why = "end/continue branch of node %s contradicts its position" % v
                    if why is None and len(exp) > 1 and sname in ("ascii", "w3"):
                        # one RenderTree object: an abandoned iteration (at every depth), then a complete one; two
                        # simultaneous iterations of the same object
                        for k in range(1, len(exp)):
                            it = iter(rt)
                            for _ in range(k):
                                next(it)
                            del it
                            again = [(r.pre, r.fill, idm(r.node)) for r in rt]
                            t.c["render_reuse_checks"] += 1
                            if again != exp:
                                why = "rows differ when the RenderTree object is iterated again after an iteration abandoned at row %d" % k
                                got = again
                                break
                        if why is None:
                            both = [((a.pre, a.fill, idm(a.node)), (b.pre, b.fill, idm(b.node))) for a, b in zip(rt, rt)]
                            if [x for x, _ in both] != exp or [y for _, y in both] != exp:
                                why = "two simultaneous iterations of one RenderTree object disturb each other"
                    if why:
                        t.violation("C09: " + why, {"engine": "E2", "module": MOD, "part": "rows", "shape": shape, "start": start,
                                                    "style": sname, "childiter": iname, "maxlevel": ml,
                                                    "expected": exp, "observed": got})
        if not text:
            continue
        # text layout: str() and by_attr()
        # ("further lines" are what str.splitlines() says: \r, \r\n, \f, \v, U+2028 ... separate lines like \n does)
        vals = ["x", "", "x\ny", "\n", "a\n\nb", ["l1", "l2"], [], ("t",), 7, "<missing>", 0, 0.0, False, None, {}, (),
                "c\rd", "e\r\nf", "g\x0ch\x0bi", "j\u2028k\x85l", ["t", "", "b"], ("", "x"), [""], ["two\nlines", ""]]
        for rot in range(3):
            nodes = tree.build(m, tree.default_factory("user"), "topdown")
            idm = tree.IdMap(nodes)
            assign = {}
            for i, nd in enumerate(nodes):
                v = vals[(i * 3 + rot * 4 + start) % len(vals)]
                assign[i] = v
                if v != "<missing>":
                    nd.val = v
            style = sty["cont"] if rot else sty["w3"]
            rows = ref_rows(m, start, list, None, style)
            for sel_name, sel in (("str", "val"), ("callable", lambda nd: getattr(nd, "val", ""))):
                exp_lines = []
                for pre, fill, v in rows:
                    ls = lines_of("" if assign[v] == "<missing>" else assign[v])
                    exp_lines.append(pre + ls[0])
                    exp_lines += [fill + x for x in ls[1:]]
                got = anytree.RenderTree(nodes[start], style=style).by_attr(sel)
                t.c["evaluations"] += 1
                t.c["text_renderings"] += 1
                t.obs((shape, start, rot, sel_name, got))
                if got != "\n".join(exp_lines):
                    t.violation("C09: by_attr() text layout differs", {"engine": "E2", "module": MOD, "part": "text", "shape": shape,
                                "start": start, "values": assign, "selector": sel_name, "expected": exp_lines, "observed": got.split("\n")})
            # default attribute name is "name"
            got = anytree.RenderTree(nodes[start], style=style).by_attr()
            exp_lines = [pre + str(v) for pre, fill, v in rows]
            if got != "\n".join(exp_lines):
                t.violation("C09: by_attr() with the default attribute differs", {"engine": "E2", "module": MOD, "part": "text",
                            "shape": shape, "start": start, "expected": exp_lines, "observed": got.split("\n")})
            # str(): repr of the nodes, multi-line reprs continue with fill
            reps = ["R", "", "r1\nr2", "\n", "p\n\nq"]

            class RepNode(anytree.NodeMixin):
                def __init__(self, rep):
                    self.rep = rep

                def __repr__(self):
                    return self.rep

                def __str__(self):  # str(RenderTree) prints the repr of the nodes, not their str()
                    return "str-of-node"

            rn = [RepNode(reps[(i + rot + start) % len(reps)]) for i in range(m.n)]
            for i in range(m.n):
                if m.par[i] is not None:
                    rn[i].parent = rn[m.par[i]]
            exp_lines = []
            for pre, fill, v in rows:
                ls = rn[v].rep.splitlines() or [""]
                exp_lines.append(pre + ls[0])
                exp_lines += [fill + x for x in ls[1:]]
            got = str(anytree.RenderTree(rn[start], style=style))
            t.c["evaluations"] += 1
            t.c["text_renderings"] += 1
            if got != "\n".join(exp_lines):
                t.violation("C09: str(RenderTree) text layout differs", {"engine": "E2", "module": MOD, "part": "text", "shape": shape,
                            "start": start, "expected": exp_lines, "observed": got.split("\n")})
    t.sample({"shape": shape, "style": "ascii", "rows": ref_rows(m, 0, list, None, sty["ascii"])}, cap=2)


ATTRSETS = [{}, {"a": 1}, {"e": 2, "b": "t"}, {"nam": 3, "n": 0}, {"_p": 1, "z": None}, {"am": [1], "me": {"k": 1}, "a": "q"}]


def check_reprs(t, shape):
    """Node / AnyNode / SymlinkNode reprs: separator-joined path of names, public attributes sorted by name."""
    import anytree

    m = tree.Model.from_shape(shape)
    # a tree mixing Node classes with different separators: the path in a repr is joined with the separator of the class
    # of the node that is printed
    mixed = [type("Node", (anytree.Node,), {"separator": s_}) for s_ in ("/", ".", "->")]
    nodes = [mixed[i % 3]("m%d" % i) for i in range(m.n)]
    for i in range(m.n):
        if m.par[i] is not None:
            nodes[i].parent = nodes[m.par[i]]
    for i in range(m.n):
        sep = mixed[i % 3].separator
        exp = "Node(%r)" % (sep + sep.join("m%d" % v for v in m.path(i)),)
        t.c["evaluations"] += 1
        t.c["reprs"] += 1
        if repr(nodes[i]) != exp:
            t.violation("C09: repr(Node) in a tree of classes with different separators differs",
                        {"engine": "E2", "module": MOD, "part": "repr", "shape": shape, "separator": "mixed", "rot": 0, "node": i,
                         "expected": exp, "observed": repr(nodes[i])})
    for sep in ("/", "|", "::"):
        NodeS = type("Node", (anytree.Node,), {"separator": sep})
        for rot in range(len(ATTRSETS)):
            # names of unusual but legal types: the repr shows str(name) of every node on the path
            names = [("n%d" % i, i, ("t%d" % i,), "n%d" % i, ("p", i), (), "n%d" % i, None, 2.5, b"b")[(i * 3 + rot) % 10] for i in range(m.n)]
            attrs = [ATTRSETS[(i + rot) % len(ATTRSETS)] for i in range(m.n)]
            nodes = [NodeS(names[i], **attrs[i]) for i in range(m.n)]
            anys = [anytree.AnyNode(**attrs[i]) for i in range(m.n)]
            for i in range(m.n):
                if m.par[i] is not None:
                    nodes[i].parent = nodes[m.par[i]]
                    anys[i].parent = anys[m.par[i]]
            # reprs show the CURRENT public attributes sorted by name: add, delete and re-add some after construction
            attrs = [dict(a) for a in attrs]
            for i in range(m.n):
                if (i + rot) % 2 == 0:
                    for nd in (nodes[i], anys[i]):
                        nd.zz_late = 1
                        nd.aa_late = [i]
                    attrs[i]["zz_late"] = 1
                    attrs[i]["aa_late"] = [i]
                    if "b" in attrs[i]:
                        for nd in (nodes[i], anys[i]):
                            v = nd.b
                            del nd.b
                            nd.b = v
            for i in range(m.n):
                pub = sorted((k, v) for k, v in attrs[i].items() if not k.startswith("_"))
                path = sep + sep.join(str(names[v]) for v in m.path(i))
                exp = "Node(%s)" % ", ".join([repr(path)] + ["%s=%r" % kv for kv in pub])
                got = repr(nodes[i])
                t.c["evaluations"] += 1
                t.c["reprs"] += 1
                if pub:
                    t.c["nontrivial"] += 1
                t.obs((shape, sep, rot, i, got))
                if got != exp:
                    t.violation("C09: repr(Node) differs", {"engine": "E2", "module": MOD, "part": "repr", "shape": shape,
                                "separator": sep, "rot": rot, "node": i, "expected": exp, "observed": got})
                exp2 = "AnyNode(%s)" % ", ".join("%s=%r" % kv for kv in pub)
                got2 = repr(anys[i])
                if got2 != exp2:
                    t.violation("C09: repr(AnyNode) differs", {"engine": "E2", "module": MOD, "part": "repr", "shape": shape,
                                "separator": sep, "rot": rot, "node": i, "expected": exp2, "observed": got2})
                if i == m.n - 1:
                    ln = anytree.SymlinkNode(nodes[i])
                    exp3 = "SymlinkNode(%s)" % exp
                    if repr(ln) != exp3:
                        t.violation("C09: repr(SymlinkNode) differs", {"engine": "E2", "module": MOD, "part": "repr", "shape": shape,
                                    "separator": sep, "rot": rot, "node": i, "expected": exp3, "observed": repr(ln)})


def job(shapes, text, reprs):
    t = core.Tally()
    for s in shapes:
        core.guard(t, "C09", {"engine": "E2", "module": MOD, "part": "rows", "shape": s}, check_shape, t, s, text=text)
        if reprs:
            core.guard(t, "C09", {"engine": "E2", "module": MOD, "part": "repr", "shape": s}, check_reprs, t, s)
    return t


def _tup(x):
    return tuple(_tup(i) for i in x) if isinstance(x, list) else x


def replay(c):
    t = core.Tally()
    if c["part"] == "repr":
        check_reprs(t, _tup(c["shape"]))
    else:
        check_shape(t, _tup(c["shape"]), [c["style"]] if "style" in c else None, [c["childiter"]] if "childiter" in c else None)
    return [v["why"] for v in t.violations]


def run(tier):
    nmax = 6 if tier == "quick" else 9
    shapes = tree.shapes_upto(nmax)
    t = core.Tally()
    jobs = [(MOD, "job", {"shapes": c, "text": True, "reprs": True}) for c in core.chunks(shapes[::-1], core.NPROC * 6)]
    # the same inputs once more in the opposite order and another chunking: results must not depend on what ran before
    jobs += [(MOD, "job", {"shapes": c, "text": True, "reprs": False}) for c in core.chunks(shapes, core.NPROC * 2 + 1)]
    core.run_pool(jobs + [("mc.capacity", "job", {"pid": "C09"}), ("mc.positional", "job", {"pid": "C09"}), ("mc.numbers", "job", {"pid": "C09"})], 0, into=t)
    core.run_pool([(MOD, "job", {"shapes": c, "text": False, "reprs": False}) for c in core.chunks(tree.shapes_upto(5), core.NPROC)], 1, into=t)
    cov = {
        "states": t.c["states"], "transitions": t.c["evaluations"], "traces_validated_against_impl": t.c["evaluations"],
        "evaluations": t.c["evaluations"], "distinct_nontrivial": t.c["nontrivial"],
        "rule": "all ordered trees up to %d nodes x start x 7 styles (4 built-in, class form, custom width 1 and 3) x 6 "
                "childiters x maxlevel in {None,-1,0,1..height+1}: rows vs. reference rows and shape re-decoded from the "
                "prefixes; re-iteration of one RenderTree object after an abandoned iteration and two simultaneous iterations; "
                "by_attr()/str() line layout with single-, multi-line, empty, list, tuple, int and missing "
                "values; Node/AnyNode/SymlinkNode reprs for 3 separators x 6 attribute sets; non-trivial = more than one "
                "row / at least one public attribute" % nmax,
        "bounds": {"max_nodes": nmax, "shapes": len(shapes)},
    }
    return {"tally": t, "coverage": cov,
            "guards": ("unusual_number_calls", "positional_calls", "reconfigured_renderings", "capacity_checks", "nontrivial", "childiter_changes_rows", "maxlevel_cuts", "text_renderings", "reprs", "render_reuse_checks"),
            "assumptions": ["bounded tree size; styles of equal segment width (as the statement requires)"]}
