"""C18 - LightNodeMixin behaves identically to NodeMixin
(E1 lock-step: every transition and fault plan on a NodeMixin universe and a LightNodeMixin universe;
 complete query vector on every reached forest and on larger shapes)."""
from .. import core, e1run, forest, tree

CFG = {"read": True, "nonnode": False, "extras": True}
P2 = ("_pre_detach", "_pre_attach")


def job_primed_light(states):
    from . import c04

    t = c04.job_primed("named:light", 3, states, True)
    for v in t.violations:
        v["why"] = v["why"].replace("C04:", "C18: LightNodeMixin only:")
        v["case"]["module"] = "mc.props.c04"
    return t


def run(tier):
    extra = {"kind2": "named", "traps": False, "exporters": False}
    extra_q = dict(extra, queries_after_ops=True)
    cfgs = [
        dict(kind="named:light", n=3, cfg=dict(CFG), hidden=True, d=2, persistent=P2, assertions=0, judge="c18", extra=extra_q),
        dict(kind="named:light", n=4, cfg=dict(CFG, extras=False), hidden=False, d=1, persistent=P2, assertions=1, judge="c18", extra=extra),
    ]
    # the two mixins must also agree for user classes with value semantics / their own truth value
    for k2, k1 in (("trap:eq", "trap:light:eq"), ("trap:falsy", "trap:light:falsy")):
        cfgs.append(dict(kind=k1, n=3, cfg=dict(CFG), hidden=False, d=1, assertions=0, judge="c18",
                         extra={"kind2": k2, "traps": False, "exporters": False}))
        cfgs.append(dict(kind=k1, n=4, cfg=dict(CFG, extras=False, read=False), hidden=False, d=0, assertions=0, judge="c18",
                         extra={"kind2": k2, "traps": False, "exporters": False}))
    # hooks that read the whole forest at every invocation (a validating hook looks at its new parent's children)
    cfgs.append(dict(kind="named:light", n=3, cfg=dict(CFG, extras=False), hidden=False, d=1, persistent=P2, assertions=0, judge="c18",
                     extra=dict(extra_q, snap=True), snap=True, name="named:light N=3 d<=1+persist, hooks read the forest A=0"))
    # hooks that themselves move nodes (re-entrant calls): whatever that does, both mixins must do the same
    cfgs.append(dict(kind="named:light", n=3, cfg=dict(CFG, extras=False, read=False), hidden=False, d=0, assertions=0, judge="c18",
                     extra=extra, reenter="moves", name="named:light N=3 hooks that move a node re-entrantly A=0"))
    for fl in ("tree", "loop", "value", "assert"):
        cfgs.append(dict(kind="named:light", n=3, cfg=dict(CFG, extras=False), hidden=False, d=1, persistent=P2, assertions=0,
                         judge="c18", extra=extra, flavour=fl))
    if tier == "thorough":
        cfgs = cfgs[2:] + [
            dict(kind="named:light", n=3, cfg=dict(CFG), hidden=True, d=3, persistent=P2, assertions=0, judge="c18", extra=extra_q),
            dict(kind="named:light", n=4, cfg=dict(CFG), hidden=True, d=1, persistent=P2, assertions=1, judge="c18", extra=extra),
            dict(kind="named:light", n=4, cfg=dict(CFG), hidden=False, d=2, persistent=P2, assertions=0, judge="c18", extra=extra),
            dict(kind="named:light", n=4, cfg=dict(CFG, extras=False), hidden=False, d=0, assertions=0, judge="c18", extra=extra_q),
            dict(kind="named:light", n=5, cfg=dict(CFG, extras=False, L=3), hidden=False, d=1, persistent=P2, assertions=0, judge="c18", extra=extra),
        ]
    t, summ = e1run.run_configs(cfgs)
    pool = core.Pool(0)
    try:
        n = 4 if tier == "quick" else 5
        states = forest.discover(pool, "named:light", n, dict(CFG, extras=False, read=False, L=3 if n == 5 else n), False)
        pool.run([("mc.lockstep", "state_queries", dict(kind="named:light", kind2="named", n=n, states=s, pid="C18", traps_on=False,
                                                         exporters=False)) for s in core.shard(states, core.NPROC * 4)], into=t)
        pool.run([("mc.lockstep", "deep_chain", dict(kind="named:light", kind2="named", pid="C18"))], into=t)
        # values must be current after any mutation also when only SOME nodes were queried before (stale caches in one mixin)
        st3 = forest.discover(pool, "named:light", 3, {"read": False, "nonnode": False, "extras": False}, False)
        pool.run([("mc.props.c18", "job_primed_light", {"states": s_}) for s_ in core.shard(st3, core.NPROC)], into=t)
        shapes = tree.shapes_upto(6 if tier == "quick" else 7, n + 1)
        pool.run([("mc.lockstep", "shape_queries", dict(kind="named:light", kind2="named", shapes=c, pid="C18", traps_on=False,
                                                         exporters=False)) for c in core.chunks(shapes, core.NPROC * 4)], into=t)
    finally:
        pool.close()
    cov = {
        "states": t.c["states"], "transitions": t.c["transitions"], "traces_validated_against_impl": t.c["lockstep_pairs"] + t.c["query_vectors_compared"],
        "evaluations": t.c["executions"] + t.c["query_vectors_compared"], "distinct_nontrivial": t.c["nontrivial"],
        "rule": "every (reachable forest, structural call with tree-node arguments, fault plan) executed on a LightNodeMixin class "
                "with __slots__ and on a NodeMixin class in lock-step: outcome class, forest and hook invocations must be equal; "
                "the complete query vector (navigation, util, 5 iterators plain and restricted, Walker all pairs, search, Resolver "
                "get/glob menus, RenderTree rows) compared after every transition at N=3, on every forest of %d labelled nodes "
                "and on all shapes up to %d nodes; non-trivial = the call changed the forest or raised" % (n, 6 if tier == "quick" else 7),
        "bounds": summ + [{"state_queries_N": n, "forest_states": len(states), "extra_shapes": len(shapes)}],
    }
    return {"tally": t, "coverage": cov, "guards": ("lockstep_pairs", "query_vectors_compared", "nontrivial", "deep_chain_comparisons"),
            "assumptions": ["tree-node arguments only (the statement's scope)", "bounded universes and fault budgets as listed"]}
