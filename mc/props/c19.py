"""C19 - pickle and deepcopy yield an independent, consistent, isomorphic tree
(E2: shapes x class assignment per node x symlink targets x entry node x pickle protocols + deepcopy;
 every single structural call applied to the copy / the original must leave the other one untouched)."""
import copy
import itertools
import pickle

from .. import core, forest, models, tree

MOD = "mc.props.c19"
CLASSES = ("node", "anynode", "user", "falsy", "symlink", "slotextra", "dictnode")
BOOK = ("_NodeMixin__children", "_NodeMixin__parent")
LIGHT_BOOK = ("_LightNodeMixin__children", "_LightNodeMixin__parent")


def methods(light):
    ms = [("pickle-%d" % p, (lambda p: (lambda nd: pickle.loads(pickle.dumps(nd, p))))(p)) for p in range(2 if light else 0, pickle.HIGHEST_PROTOCOL + 1)]
    ms.append(("deepcopy", copy.deepcopy))
    return ms


PRIME = [0]   # 0: nothing read before the copy; 1: every navigation attribute of every node has been read;
              # 2: read, then one leaf detached and re-attached (same structure), then copied


def _read_navigation(nd):
    return (nd.size, nd.height, nd.depth, nd.leaves, nd.descendants, nd.ancestors, nd.path, nd.root, nd.siblings, nd.is_leaf, nd.is_root)


def build(m, assign, targets, light=False):
    """assign: class key per node; targets: {index: ('main', j) | ('ext', k)} for symlinks.
    Returns (nodes, ext nodes)."""
    import anytree
    from .. import pickcls

    ext = [anytree.Node("e0", data=["ext"]), None, pickcls.PLight("le0", ["lext"]), pickcls.PLight("le1", None)]
    ext[1] = anytree.Node("e1", parent=ext[0])
    ext[3].parent = ext[2]     # a second external tree, built on LightNodeMixin (a link may point at such a node, too)
    nodes = [None] * m.n
    labels = []
    order = [i for i in range(m.n) if assign[i] != "symlink"] + [i for i in range(m.n) if assign[i] == "symlink"]
    # links to links: create link targets first
    pending = [i for i in order if assign[i] == "symlink"]
    done = set()
    for i in order:
        if assign[i] == "symlink":
            continue
        name = "n%d" % i
        data = ["d%d" % i, {"k": i}]
        extra = {"size": 10 + i, "depth": "deep", "height": None, "is_leaf": 0, "path": "/x"} if i % 3 == 1 else {}
        if not light and i % 2 == 0:
            # the name (Node) / an attribute value is an object that refers back into the tree
            name = pickcls.PLabel(name)
            labels.append((i, name))
            if assign[i] != "node":
                data.append(name)
                name = "n%d" % i
        if light:
            nodes[i] = pickcls.PLight(name, data)
        elif assign[i] == "node":
            # (instance attributes named like read-only tree properties are legal: Node("f", size=10), imported data ...)
            nodes[i] = anytree.Node(name, data=data, **extra)
        elif assign[i] == "anynode":
            nodes[i] = anytree.AnyNode(id=name, data=data, **extra)
        elif assign[i] == "user":
            nodes[i] = pickcls.PUser(name, data)
        elif assign[i] == "slotextra":
            nodes[i] = pickcls.PSlotExtra(name, data)
        elif assign[i] == "dictnode":
            nodes[i] = pickcls.PDictNode(name, data)
        else:
            nodes[i] = pickcls.PFalsy(name, data)
        done.add(i)
    progress = True
    while pending and progress:
        progress = False
        for i in list(pending):
            kind, j = targets[i]
            linkcls = anytree.SymlinkNode if i % 2 == 0 else pickcls.PLink
            if kind == "ext":
                nodes[i] = linkcls(ext[j])
            elif j in done:
                nodes[i] = linkcls(nodes[j])
            else:
                continue
            done.add(i)
            pending.remove(i)
            progress = True
    if pending:
        return None, None  # cyclic link targets: not constructible
    for i, lb in labels:
        lb.node = nodes[i] if i % 4 == 0 else nodes[(i + 1) % m.n]
    # attribute values that are hash-based containers of nodes (a set of the links watching a node, a dict keyed by nodes)
    for i in range(m.n):
        if assign[i] == "symlink" and targets[i][0] == "main" and not isinstance(nodes[targets[i][1]], (anytree.SymlinkNodeMixin, dict)):
            tgt = nodes[targets[i][1]]
            object.__getattribute__(tgt, "__dict__").setdefault("watchers", set()).add(nodes[i])
            object.__getattribute__(tgt, "__dict__").setdefault("by_node", {})[nodes[i]] = i
    for i in range(m.n):
        if m.par[i] is not None:
            nodes[i].parent = nodes[m.par[i]]
    # history before the copy: every leaf once had a child of its own and lost it again through a detach
    # (whatever an emptied children list is represented by, it must not be shared between the copies of two nodes)
    for i in range(m.n):
        if not m.ch[i] and not isinstance(nodes[i], (anytree.SymlinkNode, pickcls.PLink)):
            tmp = type(nodes[i])("tmp") if not isinstance(nodes[i], anytree.AnyNode) else anytree.AnyNode(id="tmp")
            tmp.parent = nodes[i]
            tmp.parent = None
    if PRIME[0]:
        for nd in nodes:
            _read_navigation(nd)
        if PRIME[0] == 2 and m.n > 1:
            last = m.n - 1          # the last node in pre-order is a leaf and the last child of its parent
            nodes[last].parent = None
            nodes[last].parent = nodes[m.par[last]]
    return nodes, ext


def own_vars(nd):
    try:
        d = object.__getattribute__(nd, "__dict__")
        out = {k: v for k, v in d.items() if k not in BOOK and k not in ("target", "watchers", "by_node")}
        if type(nd).__name__ == "PSlotExtra":
            out["<slot extra>"] = getattr(nd, "extra", "<lost>")
        if isinstance(nd, dict):
            out["<items>"] = dict(dict.items(nd))
        return out
    except AttributeError:
        return {k: getattr(nd, k) for k in ("name", "data")}


def walk_pairs(o, c, pairs, why, depth=0):
    """Parallel walk of original and copy subtrees; collects (original, copy) pairs; appends reasons."""
    if depth > 50:
        why.append("copy is deeper than the original")
        return
    pairs.append((o, c))
    if type(o) is not type(c):
        why.append("class differs: %s vs %s" % (type(o).__name__, type(c).__name__))
        return
    if o is c:
        why.append("copy shares a node object with the original")
    vo, vc = own_vars(o), own_vars(c)
    if vo != vc:
        why.append("attributes differ: %r vs %r" % (vo, vc))
    else:
        for k, v in vo.items():
            if isinstance(v, (list, dict)) and v is vc[k]:
                why.append("mutable attribute %r is shared with the original" % k)
    oc, cc = o.children, c.children
    if len(oc) != len(cc):
        why.append("number of children differs")
        return
    for x, y in zip(oc, cc):
        if y.parent is not c:
            why.append("C01 on the copy: a child's parent is not the node listing it")
        walk_pairs(x, y, pairs, why, depth + 1)


def root_of(nd, limit=50):
    k = 0
    while nd.parent is not None:
        nd = nd.parent
        k += 1
        if k > limit:
            return None
    return nd


def check_copy(m, nodes, ext, entry, cp):
    """Compare the copy (of nodes[entry]) with the original.  Returns (reasons, mapping original index -> copy node)."""
    why = []
    croot = root_of(cp)
    if croot is None:
        return ["parent chain of the copy does not terminate"], None
    pairs = []
    walk_pairs(nodes[0], croot, pairs, why)
    if why:
        return why, None
    if len(pairs) != m.n:
        return ["copy has %d nodes, original %d" % (len(pairs), m.n)], None
    omap = {id(o): c for o, c in pairs}
    oidx = {id(nd): i for i, nd in enumerate(nodes)}
    mapping = {oidx[id(o)]: c for o, c in pairs}
    if mapping[entry] is not cp:
        why.append("the result does not occupy the entry node's position in the copy")
    orig_ids = {id(nd) for nd in nodes} | {id(e) for e in ext}
    copies = [c for _, c in pairs]
    if len({id(c) for c in copies}) != len(copies):
        why.append("copy contains a node twice")
    for c in copies:
        if id(c) in orig_ids:
            why.append("copy shares a node with the original")
    if croot.parent is not None:
        why.append("copy root has a parent")
    if not why:
        # the copy answers navigation questions from ITS links (whatever the original had computed or remembered before)
        for i in range(m.n):
            c = mapping[i]
            got = (c.size, c.height, c.depth, len(c.leaves), len(c.descendants), c.is_leaf, c.is_root, len(c.path))
            exp = (m.size(i), m.height(i), m.depth(i), len(m.leaves(i)), m.size(i) - 1, not m.ch[i], m.par[i] is None, m.depth(i) + 1)
            if got != exp or not all(type(x) is type(y) for x, y in zip(got, exp)):
                why.append("navigation attributes of the copy of node %d are wrong: %r, expected %r" % (i, got, exp))
                break
    import anytree
    from .. import pickcls

    def labels_in(v):
        if isinstance(v, pickcls.PLabel):
            yield v
        elif isinstance(v, list):
            for x in v:
                for y in labels_in(x):
                    yield y
    for i, nd in enumerate(nodes):
        if isinstance(nd, anytree.SymlinkNodeMixin):
            continue
        vo, vc = own_vars(nd), own_vars(mapping[i])
        for k in vo:
            for lo, lc in zip(labels_in(vo[k]), labels_in(vc.get(k))):
                if lo is lc:
                    why.append("attribute object of node %d is shared with the original" % i)
                elif lc.node is not omap.get(id(lo.node)):
                    why.append("an attribute value of node %d that refers back to node %d refers to another object in the copy "
                               "(the copy is not one consistent object graph)" % (i, oidx.get(id(lo.node), -1)))
    for i, nd in enumerate(nodes):
        d = object.__getattribute__(nd, "__dict__") if hasattr(type(nd), "__dict__") and not isinstance(nd, pickcls.PLight) else {}
        if "watchers" in d:
            cd = object.__getattribute__(mapping[i], "__dict__")
            want = {id(omap[id(w)]) for w in d["watchers"]}
            if {id(w) for w in cd.get("watchers", ())} != want or {id(k_) for k_ in cd.get("by_node", {})} != want:
                why.append("a set / dict of nodes stored as an attribute value of node %d does not hold the corresponding copies" % i)
    for i, nd in enumerate(nodes):
        if isinstance(nd, anytree.SymlinkNodeMixin):
            tgt = object.__getattribute__(nd, "__dict__")["target"]
            ctgt = object.__getattribute__(mapping[i], "__dict__").get("target")
            if id(tgt) in omap:
                if ctgt is not omap[id(tgt)]:
                    why.append("symlink %d of the copy does not point at the corresponding copied node" % i)
            else:
                # external target: must be a copy at the same position of an isomorphic, disjoint external tree
                if ctgt is None or id(ctgt) in orig_ids:
                    why.append("symlink %d of the copy still points into the original's external tree" % i)
                else:
                    er = root_of(ctgt)
                    w2, p2 = [], []
                    if er is None:
                        why.append("external target copy has no root")
                    else:
                        walk_pairs(root_of(tgt), er, p2, w2)
                        if w2:
                            why.append("external target tree of the copy is not isomorphic: %s" % w2[0])
                        else:
                            e2 = {id(o): c for o, c in p2}
                            if e2[id(tgt)] is not ctgt:
                                why.append("external target of symlink %d is at another position in the copy" % i)
    return why, mapping


def state_of(nodes_by_label, labels):
    ids = {id(nd): l for l, nd in zip(labels, nodes_by_label)}
    lab = lambda o: None if o is None else ids.get(id(o), "?")  # noqa
    return tuple((lab(nd.parent), tuple(lab(c) for c in nd.children)) for nd in nodes_by_label)


def mutation_ops(n):
    labels = list(forest.LABELS[:n])
    ops = [("setp", x, p) for x in labels for p in [None] + labels]
    ops += [("delc", x) for x in labels]
    ops += [("setc", x, xs, "list") for x in labels for xs in itertools.permutations(labels, 1)]
    ops += [("setc", x, tuple(reversed(labels)), "list") for x in labels[:1]]
    return ops


def apply_op(nodes_by_label, labels, op):
    d = dict(zip(labels, nodes_by_label))
    if op[0] == "setp":
        d[op[1]].parent = None if op[2] is None else d[op[2]]
    elif op[0] == "delc":
        del d[op[1]].children
    else:
        d[op[1]].children = [d[x] for x in op[2]]


def check_case(t, shape, assign, targets, light, only=None):
    m = tree.Model.from_shape(shape)
    labels = list(forest.LABELS[: m.n])
    PRIME[0] = (m.n + sum(1 for a in assign if a in ("node", "user")) + len(targets) + (1 if light else 0)) % 3
    t.c["copies_after_navigation_reads"] += 1 if PRIME[0] else 0
    nodes, ext = build(m, assign, targets, light)
    if nodes is None:
        return
    ctx = {"shape": shape, "assign": list(assign), "targets": {str(k): list(v) for k, v in targets.items()}, "light": light, "primed": PRIME[0]}
    before = state_of(nodes, labels)
    ops = mutation_ops(m.n)
    for entry in range(m.n):
        t.c["states"] += 1
        for mname, meth in methods(light or "slotextra" in assign or ("ext", 3) in targets.values()):
            if only and (entry, mname) != only:
                continue
            cp = meth(nodes[entry])
            why, mapping = check_copy(m, nodes, ext, entry, cp)
            t.c["evaluations"] += 1
            t.c["copies"] += 1
            if m.n > 1:
                t.c["nontrivial"] += 1
            if "symlink" in assign:
                t.c["copies_with_symlinks"] += 1
            t.obs((shape, assign, sorted(targets.items()), light, entry, mname, len(why)))
            if state_of(nodes, labels) != before:
                why.append("copying modified the original")
            if why:
                t.violation("C19: %s" % why[0], dict(ctx, engine="E2", module=MOD, entry=entry, method=mname, reasons=why[:4]))
                continue
            # independence: every single structural call on a fresh copy leaves the original untouched and has the
            # specified effect on the copy (C01 included); and vice versa
            for op in ops:
                cp2 = meth(nodes[entry])
                w2, map2 = check_copy(m, nodes, ext, entry, cp2)
                if w2:
                    t.violation("C19: second copy differs: %s" % w2[0], dict(ctx, engine="E2", module=MOD, entry=entry, method=mname))
                    break
                cnodes = [map2[i] for i in range(m.n)]
                want, wstate, _ = models.spec_apply(before, labels, op, lambda l: not light)
                try:
                    apply_op(cnodes, labels, op)
                    got = "ok"
                except Exception as exc:  # noqa
                    got = type(exc).__name__
                t.c["evaluations"] += 1
                t.c["mutations_of_copies"] += 1
                after_copy = state_of(cnodes, labels)
                bad = None
                if state_of(nodes, labels) != before:
                    bad = "mutating the copy changed the original"
                elif want in ("ok", "noop") and (got != "ok" or after_copy != wstate):
                    bad = "structural call on the copy has the wrong effect (%s, %s)" % (got, forest.fmt_state(after_copy, labels))
                elif want not in ("ok", "noop") and (got == "ok" or after_copy != before):
                    bad = "refused call on the copy misbehaves (%s)" % got
                if bad:
                    t.violation("C19: " + bad, dict(ctx, engine="E2", module=MOD, entry=entry, method=mname, op=list(op)))
                    break
            # vice versa on a rebuilt original (only for one method per entry to bound the cost)
            if mname in ("deepcopy", "pickle-2"):
                for op in ops[:: max(1, len(ops) // 6)]:
                    n2, e2 = build(m, assign, targets, light)
                    cp3 = meth(n2[entry])
                    w3, map3 = check_copy(m, n2, e2, entry, cp3)
                    if w3:
                        break
                    try:
                        apply_op(n2, labels, op)
                    except Exception:  # noqa
                        pass
                    t.c["mutations_of_originals"] += 1
                    if state_of([map3[i] for i in range(m.n)], labels) != before:
                        t.violation("C19: mutating the original changed the copy",
                                    dict(ctx, engine="E2", module=MOD, entry=entry, method=mname, op=list(op), direction="original"))
                        break
    t.sample(dict(ctx, methods=[mn for mn, _ in methods(light)]), cap=2)


def check_slotted_hierarchy(t, shape):
    """Slotted class hierarchies, both first-use orders (fresh classes each time): a subclass adding a slot must keep
    it in every copy, whichever class was serialised first in the process."""
    from .. import pickcls

    m = tree.Model.from_shape(shape)
    for first_is_base in (True, False):
        for meth_name, meth in methods(True):
            item, weighted = pickcls.fresh_slotted_pair()
            # tree A: base-class root with subclass descendants; tree B: the other way round
            def mk(root_cls, other_cls):
                nodes = [(root_cls if i == 0 else other_cls)("n%d" % i, ["d", i]) for i in range(m.n)]
                for i, nd in enumerate(nodes):
                    if isinstance(nd, weighted):
                        # slot values that are easy to lose: None, 0, "" - and (i % 4 == 3) a slot that is not set at all
                        if i % 4 == 3:
                            del nd.weight
                        else:
                            nd.weight = (None, 0, "", 10 + i)[i % 4]
                    if m.par[i] is not None:
                        nd.parent = nodes[m.par[i]]
                return nodes
            order = [mk(item, weighted), mk(weighted, item)]
            if not first_is_base:
                order.reverse()
            for nodes in order:
                for entry in (0, m.n - 1):
                    cp = meth(nodes[entry])
                    croot = root_of(cp)
                    pairs, why = [], []
                    if croot is None:
                        why = ["no root"]
                    else:
                        walk_pairs(nodes[0], croot, pairs, why)
                    t.c["evaluations"] += 1
                    t.c["slotted_hierarchy_copies"] += 1
                    for o, c in pairs:
                        if isinstance(o, weighted):
                            ow, cw = getattr(o, "weight", "<unset>"), getattr(c, "weight", "<unset>")
                            if ow != cw or type(ow) is not type(cw):
                                why.append("slot 'weight' of the subclass differs in the copy: %r vs %r" % (ow, cw))
                    if why:
                        t.violation("C19: " + why[0], {"engine": "E2", "module": MOD, "part": "slotted", "shape": shape,
                                                       "first_serialised": "base class" if first_is_base else "subclass",
                                                       "method": meth_name, "entry": entry})
                        return


def check_dict_subclass_and_opaque_values(t, shape):
    """Added after wave 10.  (a) A LightNodeMixin hierarchy whose subclass declares no __slots__: the instance __dict__
    attributes travel with every pickle protocol and with deepcopy, next to the slots.  (b) deepcopy is not pickle: a
    node attribute that deepcopy can copy but pickle cannot (a lambda, an instance of a local class) must not make
    deepcopy of any node of the tree fail; the function is shared (deepcopy treats functions as atomic), the instance
    is copied."""
    import anytree
    from .. import pickcls

    m = tree.Model.from_shape(shape)

    def report(why, **kw):
        t.violation("C19: " + why, dict({"engine": "E2", "module": MOD, "part": "dictsub", "shape": shape}, **kw))

    for meth_name, meth in methods(True):
        item, noted = pickcls.fresh_light_dict_subclass()
        for root_cls, other_cls in ((item, noted), (noted, item)):
            nodes = [(root_cls if i == 0 else other_cls)("n%d" % i, ["d", i]) for i in range(m.n)]
            for i, nd in enumerate(nodes):
                if isinstance(nd, noted):
                    nd.note = (None, 0, "", ["note", i])[i % 4]
                if m.par[i] is not None:
                    nd.parent = nodes[m.par[i]]
            for entry in (0, m.n - 1):
                cp = meth(nodes[entry])
                croot = root_of(cp)
                pairs, why = [], []
                if croot is None:
                    why = ["no root"]
                else:
                    walk_pairs(nodes[0], croot, pairs, why)
                t.c["evaluations"] += 1
                t.c["dict_subclass_copies"] += 1
                for o, c in pairs:
                    if (o.name, o.data) != (getattr(c, "name", "<lost>"), getattr(c, "data", "<lost>")):
                        why.append("slot attributes differ in the copy")
                    if isinstance(o, noted) and vars(o) != vars(c):
                        why.append("instance __dict__ of a subclass without __slots__ differs in the copy: %r vs %r" % (vars(o), vars(c)))
                if why:
                    report(why[0], method=meth_name, entry=entry, root_class="slotted base" if root_cls is item else "subclass without __slots__")
                    return

    class Local(object):
        def __init__(self, v):
            self.v = v

    class LocalLight(anytree.LightNodeMixin):
        def __init__(self, name):
            self.name = name

    for label, factory in (("Node", lambda i: anytree.Node("n%d" % i)), ("AnyNode", lambda i: anytree.AnyNode(id=i)),
                           ("LightNodeMixin subclass without __slots__", lambda i: LocalLight("n%d" % i))):
        for holder in range(m.n):
            nodes = [factory(i) for i in range(m.n)]
            for i in range(m.n):
                if m.par[i] is not None:
                    nodes[i].parent = nodes[m.par[i]]
            fn = lambda x: x + holder  # noqa: E731
            nodes[holder].fn = fn
            nodes[holder].obj = Local([holder])
            for entry in range(m.n):
                t.c["evaluations"] += 1
                t.c["opaque_value_deepcopies"] += 1
                try:
                    cp = copy.deepcopy(nodes[entry])
                except Exception as exc:  # noqa: BLE001
                    report("deepcopy of a node fails (%s) because a node of the tree holds a value that pickle cannot serialise but "
                           "deepcopy can copy" % type(exc).__name__, node_class=label, holder=holder, entry=entry)
                    return
                croot = root_of(cp)
                pairs, why = [], []
                if croot is None:
                    why = ["no root"]
                else:
                    walk_pairs_shape_only(nodes[0], croot, pairs, why)
                for o, c in pairs:
                    if o is nodes[holder]:
                        if getattr(c, "fn", None) is not fn:
                            why.append("function-valued attribute is not carried over by deepcopy")
                        co = getattr(c, "obj", None)
                        if type(co) is not Local or co is o.obj or co.v != o.obj.v or co.v is o.obj.v:
                            why.append("object-valued attribute is not deep-copied")
                if why:
                    report(why[0], node_class=label, holder=holder, entry=entry)
                    return


def walk_pairs_shape_only(o, c, pairs, why, depth=0):
    pairs.append((o, c))
    if type(o) is not type(c) or o is c:
        why.append("copy node has another class or is the original object")
        return
    if len(o.children) != len(c.children) or depth > 50:
        why.append("number of children differs")
        return
    for x, y in zip(o.children, c.children):
        if y.parent is not c:
            why.append("C01 on the copy: a child's parent is not the node listing it")
        walk_pairs_shape_only(x, y, pairs, why, depth + 1)


def cases(n, max_links):
    out = []
    for shape in tree.plane_trees(n):
        for assign in itertools.product(CLASSES, repeat=n):
            links = [i for i, a in enumerate(assign) if a == "symlink"]
            if len(links) > max_links:
                continue
            choices = []
            for i in links:
                choices.append([("main", j) for j in range(n) if j != i] + [("ext", 1), ("ext", 3)])
            for combo in itertools.product(*choices):
                out.append((shape, assign, dict(zip(links, combo)), False))
        out.append((shape, ("light",) * n, {}, True))
    return out


def job(items):
    t = core.Tally()
    for shape, assign, targets, light in items:
        if light and len(assign) >= 2:
            core.guard(t, "C19", {"engine": "E2", "module": MOD, "part": "slotted", "shape": shape}, check_slotted_hierarchy, t, shape)
            core.guard(t, "C19", {"engine": "E2", "module": MOD, "part": "dictsub", "shape": shape},
                       check_dict_subclass_and_opaque_values, t, shape)
        core.guard(t, "C19", {"engine": "E2", "module": MOD, "shape": shape, "assign": list(assign),
                              "targets": {str(k): list(v) for k, v in targets.items()}, "light": light},
                   check_case, t, shape, assign, targets, light)
    return t


def _tup(x):
    return tuple(_tup(i) for i in x) if isinstance(x, list) else x


def replay(c):
    t = core.Tally()
    if c.get("part") == "slotted":
        check_slotted_hierarchy(t, _tup(c["shape"]))
        return [v["why"] for v in t.violations]
    if c.get("part") == "dictsub":
        check_dict_subclass_and_opaque_values(t, _tup(c["shape"]))
        return [v["why"] for v in t.violations]
    targets = {int(k): tuple(v) for k, v in c["targets"].items()}
    only = (c["entry"], c["method"]) if "entry" in c else None
    check_case(t, _tup(c["shape"]), tuple(c["assign"]), targets, c["light"], only)
    return [v["why"] for v in t.violations]


def run(tier):
    items = []
    for n, ml in ((1, 1), (2, 2), (3, 2)) if tier == "quick" else ((1, 1), (2, 2), (3, 2), (4, 1)):
        items += cases(n, ml)
    if tier == "quick":
        items += [c for c in cases(4, 1) if len(set(c[1])) <= 2][::3]
    t = core.Tally()
    core.run_pool([(MOD, "job", {"items": c}) for c in core.chunks(items[::-1], core.NPROC * 8)], 0, into=t)
    core.run_pool([(MOD, "job", {"items": c}) for c in core.chunks(items[:64], core.NPROC)], 1, into=t)
    cov = {
        "states": t.c["states"], "transitions": t.c["evaluations"], "traces_validated_against_impl": t.c["evaluations"],
        "evaluations": t.c["evaluations"], "distinct_nontrivial": t.c["nontrivial"],
        "rule": "ordered trees up to %d nodes x class per node from {Node, AnyNode, user NodeMixin, falsy user class, SymlinkNode} "
                "(<=2 links; targets: every other node incl. links, or a node of a second tree) and homogeneous LightNodeMixin trees "
                "x every entry node x pickle protocols 0-5 (2-5 for __slots__) + deepcopy: isomorphism, position, disjointness, "
                "C01 on the copy, link targets; then every single structural call applied to a fresh copy (effect as specified, "
                "original untouched) and to the original (copy untouched); non-trivial = more than one node" % (3 if tier == "quick" else 4),
        "bounds": {"cases": len(items)},
    }
    return {"tally": t, "coverage": cov,
            "guards": ("copies_after_navigation_reads", "copies", "nontrivial", "copies_with_symlinks", "mutations_of_copies", "mutations_of_originals",
                       "slotted_hierarchy_copies"),
            "assumptions": ["tree depth far below the recursion limit", "classes are importable module-level classes (pickle requirement)"]}
