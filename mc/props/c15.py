"""C15 - Walker.walk returns the unique tree path between two nodes
(E2: all shapes x every ordered pair; all two-tree forests for WalkError)."""
from .. import core, tree

MOD = "mc.props.c15"
KINDS = ("node", "user", "light", "weird", "falsy", "eqhash", "falsylight", "norepr", "container", "tuplenode", "tuple0", "datanode")


def expected(m, a, b):
    pa, pb = m.path(a), m.path(b)
    if pa[0] != pb[0]:
        return "WalkError"
    k = 0
    while k < min(len(pa), len(pb)) and pa[k] == pb[k]:
        k += 1
    common = pa[k - 1]
    return (pa[k:][::-1], common, pb[k:])


def check_forest(t, trees, kinds=KINDS):
    import anytree

    m = tree.Model.from_forest(trees)
    for kind in kinds:
        if kind == "norepr" and len(trees) > 1:
            continue  # the WalkError message legitimately needs the reprs; within one tree no repr is needed
        nodes = tree.build(m, tree.default_factory(kind), "topdown")
        idm = tree.IdMap(nodes)
        w = anytree.Walker()
        for a in range(m.n):
            t.c["states"] += 1
            for b in range(m.n):
                exp = expected(m, a, b)
                try:
                    up, common, down = w.walk(nodes[a], nodes[b])
                    got = (idm.seq(up), idm(common), idm.seq(down))
                    if not isinstance(up, tuple) or not isinstance(down, tuple):
                        got = ("not tuples",) + got
                except anytree.WalkError:
                    got = "WalkError"
                t.c["evaluations"] += 1
                t.obs((trees, kind, a, b, got))
                why = None
                if got != exp:
                    why = "walk(%d,%d) differs from the unique tree path" % (a, b)
                elif exp != "WalkError":
                    # adjacency and mirror law, from the real result only
                    chain = exp[0] + [exp[1]] + exp[2]
                    for x, y in zip(chain, chain[1:]):
                        if not (m.par[x] == y or m.par[y] == x):
                            why = "consecutive nodes are not linked"
                    back = w.walk(nodes[b], nodes[a])
                    if (idm.seq(back[0]), idm(back[1]), idm.seq(back[2])) != (exp[2][::-1], exp[1], exp[0][::-1]):
                        why = "walk(b,a) is not the mirror image of walk(a,b)"
                    if exp[0] and exp[2]:
                        t.c["up_and_down"] += 1
                    if a != b:
                        t.c["nontrivial"] += 1
                else:
                    t.c["different_trees"] += 1
                    t.c["nontrivial"] += 1
                if why:
                    t.violation("C15: " + why, {"engine": "E2", "module": MOD, "forest": trees, "kind": kind,
                                                "start": a, "end": b, "expected": exp, "observed": got})
    t.sample({"forest": trees, "walk(last,first)": expected(m, m.n - 1, 0)}, cap=2)


def job(forests):
    t = core.Tally()
    for f in forests:
        core.guard(t, "C15", {"engine": "E2", "module": MOD, "forest": f, "kind": KINDS[0]}, check_forest, t, f)
    return t


def run_primed(t, kind, n, witness, primed, ops, y, z):
    """rebuild a reachable forest; ask only the primed nodes for path / walk; mutate; then walk(y, z) in isolation."""
    import anytree
    from .. import forest

    u = forest.rebuild(kind, n, witness)
    u.arm()
    w = anytree.Walker()
    for lbl in primed:
        nd = u.nodes[lbl]
        nd.path
        w.walk(nd, nd.root)
        repr(nd)
    for op in ops:
        if op and op[0] == "fault":
            u.arm(op[2], op[3])
            op = op[1]
            t.c["faulted_ops_in_histories"] += 1
        try:
            u.apply(op)
        except Exception:  # noqa
            t.c["refused_ops"] += 1
        u.raise_at = frozenset()
        u.persist = None
    nodes = [u.nodes[l] for l in u.labels]
    idm = tree.IdMap(nodes)
    yi, zi = u.labels.index(y), u.labels.index(z)
    try:
        up, common, down = w.walk(nodes[yi], nodes[zi])
        got = (idm.seq(up), idm(common), idm.seq(down))
    except anytree.WalkError:
        got = "WalkError"
    m = tree.Model.from_state(u.state(), u.labels)
    exp = expected(m, yi, zi)
    t.c["evaluations"] += 1
    t.c["primed_histories"] += 1
    if primed and yi != zi:
        t.c["nontrivial"] += 1
    if got != exp:
        t.violation("C15: walk(%s,%s) is wrong after a partially queried mutation history" % (y, z),
                    {"engine": "E2", "module": MOD, "part": "primed", "kind": kind, "n": n, "witness": [list(x) for x in witness],
                     "primed": list(primed), "history": [list(o) for o in ops], "start": y, "end": z, "expected": exp, "observed": got})


def job_primed(kind, n, states):
    from .. import forest

    t = core.Tally()
    labels = list(forest.LABELS[:n])
    ops = [("setp", x, p) for x in labels for p in [None] + labels] + [("delc", x) for x in labels]
    for key, state, witness in states:
        t.c["states"] += 1
        for primed in core.powerset(labels):
            if n >= 4 and len(primed) not in (0, 1, n):
                continue  # at 4+ nodes: nothing, one node or every node asked before the mutation
            steps = [op for op in ops]
            if primed and len(primed) in (1, n) and n <= 3:
                from . import c04
                steps += [("fault", op, (i,), None) for op in ops if op[0] == "setp" for i in range(c04.hook_count(kind, n, witness, op))]
            for op in steps:
                for y in labels:
                    for z in labels:
                        core.guard(t, "C15", {"engine": "E2", "module": MOD, "part": "primed", "kind": kind, "n": n,
                                              "witness": [list(x) for x in witness], "primed": list(primed), "history": [list(op)],
                                              "start": y, "end": z}, run_primed, t, kind, n, witness, primed, (op,), y, z, _limit=10)
        t.obs((kind, key, "primed", t.c["evaluations"]))
    return t


def check_deep_chain(t, depth=600):
    """A degenerate but legal shape: one chain far deeper than any fixed recursion budget per level would allow
    (the pinned implementation walks parent links iteratively for path / root / depth / walk)."""
    import anytree

    n = depth + 1
    m = tree.Model([None] + list(range(n - 1)), [[i + 1] for i in range(n - 1)] + [[]])
    for kind in ("user", "light"):
        nodes = tree.build(m, tree.default_factory(kind), "topdown")
        idm = tree.IdMap(nodes)
        w = anytree.Walker()
        for a, b in ((n - 1, 0), (0, n - 1), (n - 1, n // 2), (n // 3, n - 2), (n - 1, n - 1)):
            exp = expected(m, a, b)
            up, common, down = w.walk(nodes[a], nodes[b])
            got = (idm.seq(up), idm(common), idm.seq(down))
            t.c["evaluations"] += 1
            t.c["deep_chain_walks"] += 1
            if got != exp:
                t.violation("C15: walk on a chain of depth %d is wrong" % depth,
                            {"engine": "E2", "module": MOD, "part": "deep", "kind": kind, "depth": depth, "start": a, "end": b})
        other = tree.default_factory(kind)(0, "other")
        try:
            w.walk(nodes[n - 1], other)
            t.violation("C15: no WalkError for nodes of different trees (deep chain)",
                        {"engine": "E2", "module": MOD, "part": "deep", "kind": kind, "depth": depth})
        except anytree.WalkError:
            pass
        # take the chain apart from the top, otherwise object destruction recurses through the whole chain
        for nd in nodes:
            nd.parent = None


def job_deep():
    t = core.Tally()
    core.guard(t, "C15", {"engine": "E2", "module": MOD, "part": "deep"}, check_deep_chain, t)
    return t


def _tup(x):
    return tuple(_tup(i) for i in x) if isinstance(x, list) else x


def replay(c):
    t = core.Tally()
    if c.get("part") == "deep":
        check_deep_chain(t)
        return [v["why"] for v in t.violations]
    if c.get("part") == "primed":
        run_primed(t, c["kind"], c["n"], _tup(c["witness"]), tuple(c["primed"]), _tup(c["history"]), c["start"], c["end"])
        return [v["why"] for v in t.violations]
    check_forest(t, _tup(c["forest"]), (c["kind"],))
    return [v["why"] for v in t.violations]


def run(tier):
    nmax, fmax = (7, 5) if tier == "quick" else (9, 7)
    items = [(s,) for s in tree.shapes_upto(nmax)]
    nshapes = len(items)
    for n in range(2, fmax + 1):
        items += [f for f in tree.forests(n) if len(f) in (2, 3)]
    t = core.Tally()
    core.run_pool([(MOD, "job", {"forests": c}) for c in core.chunks(items[::-1], core.NPROC * 6)], 0, into=t)
    core.run_pool([(MOD, "job", {"forests": c}) for c in core.chunks(items[:300], core.NPROC)], 1, into=t)
    from .. import forest

    pool = core.Pool(0)
    hist = []
    try:
        pool.run([(MOD, "job_deep", {}), ("mc.positional", "job", {"pid": "C15"})], into=t)
        for kind, n in (("mixin", 3), ("light", 3), ("node", 4), ("symmix", 4)) + ((("mixin", 4), ("light", 4), ("symmix", 5)) if tier == "thorough" else ()):
            states = forest.discover(pool, kind, n, {"read": False, "nonnode": False, "extras": False}, False)
            before = t.c["primed_histories"]
            pool.run([(MOD, "job_primed", {"kind": kind, "n": n, "states": s_}) for s_ in core.shard(states, core.NPROC * 4)], into=t)
            hist.append({"class": kind, "N": n, "forest_states": len(states), "histories": t.c["primed_histories"] - before})
    finally:
        pool.close()
    cov = {
        "states": t.c["states"], "transitions": t.c["evaluations"], "traces_validated_against_impl": t.c["evaluations"],
        "evaluations": t.c["evaluations"], "distinct_nontrivial": t.c["nontrivial"],
        "rule": "all ordered trees up to %d nodes (%d) and all forests of 2-3 trees up to %d nodes x 4 classes x every "
                "ordered (start, end) pair; expected path from independently computed ancestor chains, plus adjacency "
                "and mirror law; plus, from every reachable forest of 3-4 labelled nodes: every subset of nodes asked for path/walk "
                "first, one mutation, then one walk in isolation (stale-cache histories); non-trivial = start != end" % (nmax, nshapes, fmax),
        "bounds": {"max_nodes": nmax, "forest_nodes": fmax, "inputs": len(items), "partially_primed_histories": hist},
    }
    return {"tally": t, "coverage": cov, "guards": ("positional_calls", "nontrivial", "different_trees", "up_and_down", "primed_histories", "deep_chain_walks"),
            "assumptions": ["bounded tree sizes"]}
