"""Setup self-test: the interpreter, the repo under test and the framework import; evidence writer sanity."""
import os
import subprocess
import sys

from . import core


def main():
    pool = core.Pool(0, nproc=1)
    try:
        from . import forest

        st = pool.call("mc.forest", "probe_initial", kind="mixin", n=2, hidden=True)
        assert st[1] == ((None, ()), (None, ())), st
    finally:
        pool.close()
    print("selftest ok: anytree importable from %s, python %s" % (core.REPO, sys.version.split()[0]))
    return 0
