"""Shared machinery: loading anytree from the repo under test, worker pools, tallies, evidence, violations.

The parent (runner) process never imports anytree.  All exploration happens in forked worker
processes whose initializer fixes ANYTREE_ASSERTIONS *before* the first import of anytree, so both
settings of the internal-assertion switch can be explored by one check.
"""
import collections
import hashlib
import itertools
import json
import multiprocessing
import os
import sys
import time
import traceback

VERIF = os.path.dirname(os.path.dirname(os.path.abspath(__file__)))
REPO = os.path.abspath(os.environ.get("VERIF_REPO", "/repo"))
NPROC = int(os.environ.get("VERIF_NPROC", "0")) or min(16, os.cpu_count() or 1)
SEED = int(os.environ.get("VERIF_SEED", "0") or 0)
MAXV = 12  # violations kept per job


class HarnessError(Exception):
    """The machinery itself is broken (never reported as a property violation)."""


def load_anytree(assertions):
    """Import anytree from REPO with the requested assertion switch; verify the origin."""
    os.environ["ANYTREE_ASSERTIONS"] = "1" if assertions else "0"
    sys.dont_write_bytecode = True
    if "anytree" in sys.modules:
        import anytree

        from anytree import config

        if bool(config.ASSERTIONS) != bool(assertions):
            raise HarnessError("anytree already imported with another assertion setting")
        return anytree
    if REPO not in sys.path:
        sys.path.insert(0, REPO)
    import anytree

    origin = os.path.abspath(anytree.__file__)
    if not origin.startswith(REPO + os.sep):
        raise HarnessError("anytree imported from %s, not from %s" % (origin, REPO))
    from anytree import config

    if bool(config.ASSERTIONS) != bool(assertions):
        raise HarnessError("assertion switch not honoured")
    return anytree


# ---------------------------------------------------------------------------------------------
# Tally: what one job / one check has covered.  Merging is commutative (digest is a sum).


def h64(obj):
    """Deterministic 64-bit hash of a JSON-able / repr-able observation."""
    if not isinstance(obj, (bytes, bytearray)):
        obj = repr(obj).encode("utf-8", "backslashreplace")
    return int.from_bytes(hashlib.blake2b(obj, digest_size=8).digest(), "big")


class Tally:
    def __init__(self):
        self.c = collections.Counter()  # named counters
        self.violations = []  # dicts: {"why":..., "case":...}
        self.known = collections.Counter()  # known-finding id -> instances
        self.known_examples = {}
        self.samples = []
        self.digest = 0
        self.errors = []

    def obs(self, obj):
        self.digest = (self.digest + h64(obj)) & 0xFFFFFFFFFFFFFFFF

    def violation(self, why, case):
        self.c["violations"] += 1
        if len(self.violations) < MAXV:
            self.violations.append({"why": why, "case": case})

    def kf(self, kfid, case=None):
        self.known[kfid] += 1
        if case is not None and kfid not in self.known_examples:
            self.known_examples[kfid] = case

    def sample(self, case, cap=3):
        if len(self.samples) < cap:
            self.samples.append(case)

    def merge(self, other):
        self.c.update(other.c)
        for v in other.violations:
            if len(self.violations) < 4 * MAXV:
                self.violations.append(v)
        self.known.update(other.known)
        for k, v in other.known_examples.items():
            self.known_examples.setdefault(k, v)
        for s in other.samples:
            if len(self.samples) < 6:
                self.samples.append(s)
        self.digest = (self.digest + other.digest) & 0xFFFFFFFFFFFFFFFF
        self.errors.extend(other.errors)
        return self


# ---------------------------------------------------------------------------------------------
# Worker pools


def _init_worker(assertions, reclimit):
    try:
        import faulthandler
        import signal

        faulthandler.register(signal.SIGUSR1, all_threads=False)  # kill -USR1 <worker pid> dumps its Python stack
        if reclimit:
            sys.setrecursionlimit(reclimit)
        load_anytree(assertions)
    except BaseException:  # pragma: no cover
        traceback.print_exc()
        raise


def _run_job(job):
    modname, funcname, kwargs = job
    try:
        mod = __import__(modname, fromlist=["x"])
        res = getattr(mod, funcname)(**kwargs)
        if isinstance(res, Tally):
            # what travels back to the main process is plain data only: the main process does not import the library under
            # test, so an object of one of its classes inside a recorded case (e.g. junk returned by a changed library)
            # could not even be unpickled there (and would take the pool's result thread down with it)
            res.violations = [{"why": str(v["why"]), "case": jsonable(v["case"])} for v in res.violations]
            res.samples = [jsonable(x) for x in res.samples]
            res.known_examples = {k: jsonable(v) for k, v in res.known_examples.items()}
            res.errors = [str(e) for e in res.errors]
        return res
    except BaseException:
        t = Tally()
        t.errors.append("job %s.%s(%s) crashed:\n%s" % (modname, funcname, _short(kwargs), traceback.format_exc()))
        return t


def _short(obj, n=300):
    s = repr(obj)
    return s if len(s) <= n else s[:n] + "..."


class Pool:
    """A pool of forked workers with a fixed assertion setting."""

    def __init__(self, assertions=0, nproc=None, reclimit=0):
        ctx = multiprocessing.get_context("fork")
        self.pool = ctx.Pool(nproc or NPROC, initializer=_init_worker, initargs=(assertions, reclimit))

    def run(self, jobs, into=None):
        """jobs: list of (module, function, kwargs); results (Tally or anything) are merged / returned."""
        jobs = list(jobs)
        if SEED:
            k = SEED % max(1, len(jobs))
            jobs = jobs[k:] + jobs[:k]
        out = []
        for res in self.pool.imap_unordered(_run_job, jobs, chunksize=1):
            if into is not None and isinstance(res, Tally):
                into.merge(res)
            else:
                out.append(res)
        return out

    def call(self, modname, funcname, **kwargs):
        res = self.pool.apply(_run_job, ((modname, funcname, kwargs),))
        if isinstance(res, Tally) and res.errors:
            raise HarnessError(res.errors[0])
        return res

    def close(self):
        self.pool.terminate()
        self.pool.join()


def shard(items, n):
    """Split a list into n interleaved shards (balanced for BFS-ordered input)."""
    items = list(items)
    n = max(1, min(n, len(items)))
    return [items[i::n] for i in range(n)]


# ---------------------------------------------------------------------------------------------
# Evidence


def _check_evidence(ev):
    """Minimal structural validation mirroring EVIDENCE.schema.json for level model_checking."""
    for k in ("property_id", "tier", "seed", "level", "coverage", "wall_s"):
        if k not in ev:
            raise HarnessError("evidence lacks %s" % k)
    cov = ev["coverage"]
    if ev["level"] == "model_checking":
        for k in ("states", "transitions", "traces_validated_against_impl", "samples"):
            if k not in cov:
                raise HarnessError("evidence coverage lacks %s" % k)
        if (cov["states"] < 1 or cov["transitions"] < 1 or not cov["samples"]) and not ev.get("violations"):
            raise HarnessError("vacuous model-checking evidence")   # (a run in which everything failed reports its violations)
    for k in ("evaluations", "distinct_nontrivial"):
        if k in cov and (not isinstance(cov[k], int) or cov[k] < 0):
            raise HarnessError("bad %s" % k)


def jsonable(obj):
    if isinstance(obj, dict):
        return {str(k): jsonable(v) for k, v in obj.items()}
    if isinstance(obj, (list, tuple, set, frozenset)):
        return [jsonable(v) for v in obj]
    if isinstance(obj, (str, int, float, bool)) or obj is None:
        return obj
    return repr(obj)


def write_evidence(pid, tier, coverage, wall_s, violations, assumptions):
    ev = {
        "property_id": pid,
        "tier": tier,
        "seed": SEED,
        "level": "model_checking",
        "coverage": jsonable(coverage),
        "assumptions": list(assumptions),
        "wall_s": round(wall_s, 3),
        "violations": int(violations),
    }
    _check_evidence(ev)
    d = os.environ.get("VERIF_EVIDENCE_DIR") or os.path.join(VERIF, "evidence")
    os.makedirs(d, exist_ok=True)
    path = os.path.join(d, "%s.json" % pid)
    tmp = path + ".tmp.%d" % os.getpid()
    with open(tmp, "w") as f:
        json.dump(ev, f, indent=1, sort_keys=True)
        f.write("\n")
    os.replace(tmp, path)
    return path


def write_replay(pid, case):
    d = os.path.join(os.environ.get("VERIF_OUT") or os.path.join(VERIF, "out"), "replays")
    os.makedirs(d, exist_ok=True)
    body = json.dumps(jsonable(case), indent=1, sort_keys=True)
    name = "%s-%s.json" % (pid, hashlib.sha1(body.encode()).hexdigest()[:10])
    path = os.path.join(d, name)
    with open(path, "w") as f:
        f.write(body + "\n")
    return path


def load_known_findings(pid):
    path = os.path.join(VERIF, "known_findings.json")
    if not os.path.exists(path):
        return {}
    with open(path) as f:
        data = json.load(f)
    return {k["id"]: k for k in data.get("findings", [])
            if (k.get("property") == pid or pid in k.get("also_affects", ())) and k.get("status") == "known"}


class Timer:
    def __init__(self):
        self.t0 = time.time()

    def s(self):
        return time.time() - self.t0


def powerset(items, maxk=None):
    items = list(items)
    top = len(items) if maxk is None else min(maxk, len(items))
    for k in range(top + 1):
        for c in itertools.combinations(items, k):
            yield c


def run_pool(jobs, assertions=0, reclimit=0, into=None):
    """Run jobs in a fresh pool with the given assertion setting; merge the Tallies."""
    t = into if into is not None else Tally()
    pool = Pool(assertions, reclimit=reclimit)
    try:
        pool.run(jobs, into=t)
    finally:
        pool.close()
    return t


def chunks(items, n):
    items = list(items)
    n = max(1, n)
    size = max(1, (len(items) + n - 1) // n)
    return [items[i:i + size] for i in range(0, len(items), size)]


CAPPED = []   # explorations that were stopped at a size cap in this (main) process: such a run is not exhaustive
_PROCESS_TIMEOUTS = [0]  # non-terminating cases seen by this worker process (circuit breaker)


class CaseTimeout(BaseException):
    """A single case did not terminate (e.g. the library walks a cyclic parent chain).  Not an Exception: neither the
    library's nor the harness's `except Exception` may swallow it."""


class time_limit(object):
    """with time_limit(seconds): ...  raises CaseTimeout inside the block (worker processes, main thread).
    The limit is CPU time of this process (ITIMER_PROF), not wall-clock time: a worker that is merely descheduled on
    an oversubscribed machine must not be mistaken for a non-terminating case."""

    def __init__(self, seconds):
        self.seconds = seconds

    def _fire(self, signum, frame):
        raise CaseTimeout("no result after %s s of CPU time" % self.seconds)

    def __enter__(self):
        import signal

        self.old_handler = signal.signal(signal.SIGPROF, self._fire)
        self.old_timer = signal.setitimer(signal.ITIMER_PROF, self.seconds)
        self.t0 = time.process_time()
        return self

    def __exit__(self, *exc):
        import signal

        signal.setitimer(signal.ITIMER_PROF, 0)
        signal.signal(signal.SIGPROF, self.old_handler)
        if self.old_timer and self.old_timer[0] > 0:
            signal.setitimer(signal.ITIMER_PROF, max(0.01, self.old_timer[0] - (time.process_time() - self.t0)))
        return False


def guard(t, pid, case, fn, *args, **kw):
    """Run one case; an unexpected exception while the real code (or the comparison of its junk result) is
    evaluated is a finding about the code under test, not a harness crash."""
    if _PROCESS_TIMEOUTS[0] >= 3:
        # this worker already met non-terminating cases: do not spend the whole budget on more of them
        t.c["cases_skipped_after_timeouts"] += 1
        return None
    try:
        with time_limit(kw.pop("_limit", 900)):
            return fn(*args, **kw)
    except HarnessError:
        raise
    except (Exception, CaseTimeout) as exc:  # noqa
        tb = traceback.format_exc().strip().splitlines()
        if isinstance(exc, CaseTimeout):
            t.c["case_timeouts"] += 1
            _PROCESS_TIMEOUTS[0] += 1
        c = dict(case)
        c["unexpected_exception"] = tb[-6:]
        t.violation("%s: unexpected %s while evaluating the case: %s" % (pid, type(exc).__name__, exc), c)
        return None
