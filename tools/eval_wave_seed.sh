#!/bin/bash
# tools/eval_wave_seed.sh <wave> <property> <A|B> <slug> <extra checks comma | -> <needs...>
# Takes /tmp/seedout/w<wave>_<property>/{patchX.diff,demoX.py}, confirms the change with tools/eval_seed.py against the
# own quick check (plus the extra ones), stores it as seeded/<property>-<slug>/ and records the first-version result.
set -u
wave=$1; prop=$2; letter=$3; slug=$4; extra=$5; shift 5
src=/tmp/seedsrc/${prop}-${slug}; mkdir -p $src
cp /tmp/seedout/w${wave}_${prop}/patch${letter}.diff $src/patch.diff || exit 2
cp /tmp/seedout/w${wave}_${prop}/demo${letter}.py $src/demo.py || exit 2
checks=$prop; [ "$extra" != "-" ] && checks="$prop,$extra"
/verif/tools/eval_seed.py ${prop}-${slug} $src $prop $checks "$@" || exit 1
/venv/bin/python - <<E
import json
p="/verif/seeded/${prop}-${slug}/meta.json"; m=json.load(open(p))
c=m.get("caught_by_quick_checks") or []
m["wave"]=int("$wave")
m["own_check_before_this_wave_was_used_for_strengthening"]="caught" if "$prop" in c else "missed"
m["any_run_check_before_strengthening"]=c
json.dump(m,open(p,"w"),indent=1)
E
