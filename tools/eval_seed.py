#!/usr/bin/env python3
"""tools/eval_seed.py <seed-id> <srcdir> <property> <checks,comma> <needs...>
Runs tools/try_seed.sh for the given checks; keeps the seed only if it is confirmed (applies, suite green, demo 0/1)."""
import json, os, re, subprocess, sys
sid, src, prop, checks = sys.argv[1:5]
needs = " ".join(sys.argv[5:])
out = subprocess.run(["timeout", "3000", "/verif/tools/try_seed.sh", src] + checks.split(","), capture_output=True, text=True).stdout
ok = ("demo on clean tree: exit=0" in out and "demo with change:   exit=1" in out and out.count("3 failed, 160 passed") == 2
      and "DOES NOT APPLY" not in out)
caught = re.findall(r"check (C\d+) seed=0: exit=1\b", out)
broken = re.findall(r"check (C\d+) seed=0: exit=(?:2|\d\d+)\b", out)
print(sid, "confirmed" if ok else "NOT CONFIRMED", "caught by", caught, "harness-errors", broken)
if not ok:
    print(out)
    sys.exit(1)
subprocess.check_call(["/verif/tools/keep_seed.py", sid, src + "/patch.diff", src + "/demo.py", prop, ",".join(caught) or "none"] + needs.split())
m = json.load(open("/verif/seeded/%s/meta.json" % sid))
m["quick_checks_run_against_it"] = checks.split(",")
json.dump(m, open("/verif/seeded/%s/meta.json" % sid, "w"), indent=1)
