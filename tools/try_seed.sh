#!/bin/bash
# tools/try_seed.sh <dir with patch.diff + demo.py> <property ids...>
# Confirms a seeded change (applies cleanly, upstream suite still green, demo fails with / passes without),
# then runs the given quick checks against a scratch copy of /repo with the change applied.
# Nothing is written to /repo or to /verif/evidence.
set -u
SEED_DIR=$(readlink -f "$1"); shift
PATCH=$SEED_DIR/patch.diff; DEMO=$SEED_DIR/demo.py
WT=$(mktemp -d /tmp/seedwt.XXXXXX); rmdir "$WT"
OUT=$(mktemp -d /tmp/seedrun.XXXXXX)
git -C /repo worktree add -q --detach "$WT" HEAD || exit 2
cleanup() { git -C /repo worktree remove --force "$WT" >/dev/null 2>&1; rm -rf "$OUT"; }
trap cleanup EXIT
cd "$WT" || exit 2
if [ -f "$DEMO" ]; then ANYTREE_ROOT=$WT PYTHONDONTWRITEBYTECODE=1 /venv/bin/python "$DEMO" >/dev/null 2>&1; echo "demo on clean tree: exit=$?"; fi
git apply "$PATCH" || { echo "PATCH DOES NOT APPLY"; exit 2; }
echo "pytest with change:  $(PYTHONDONTWRITEBYTECODE=1 /venv/bin/python -m pytest -q -p no:cacheprovider 2>&1 | tail -1)"
echo "pytest ASSERTIONS=1: $(ANYTREE_ASSERTIONS=1 PYTHONDONTWRITEBYTECODE=1 /venv/bin/python -m pytest -q -p no:cacheprovider 2>&1 | tail -1)"
if [ -f "$DEMO" ]; then ANYTREE_ROOT=$WT PYTHONDONTWRITEBYTECODE=1 /venv/bin/python "$DEMO" >/dev/null 2>&1; echo "demo with change:   exit=$?"; fi
rm -rf tests/dotexport 2>/dev/null
for id in "$@"; do
  for seed in ${SEEDS:-0}; do
    VERIF_SEED=$seed VERIF_REPO=$WT VERIF_EVIDENCE_DIR=$OUT/ev VERIF_OUT=$OUT ${VERIF_CHECK:-/verif/check} "$id" --tier "${TIER:-quick}" > "$OUT/$id.log" 2>&1
    rc=$?
    echo "check $id seed=$seed: exit=$rc  $(grep -c '^VIOLATION' "$OUT/$id.log") VIOLATION lines; $(grep -m1 '^   ' "$OUT/$id.log")"
    [ $rc -eq 2 ] && grep -m3 HARNESS "$OUT/$id.log"
  done
done
