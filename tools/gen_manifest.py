#!/usr/bin/env python3
"""Regenerate /verif/MANIFEST.json from the table below (keeps the file valid and in sync with mc/props)."""
import json, os

E1T = "explicit-state BFS over mutation histories of the real classes + deviation-bounded hook-fault enumeration"
E2T = "bounded-exhaustive enumeration of inputs/configurations of the real code against a reference model"
CHECKS = {
 "C01": ("E1", "Every reachable forest state of 3-4 (5 thorough) labelled nodes of 11 class universes x every structural call x every hook-fault plan (<=2 one-shot faults, persistent vetoes) x both assertion settings is executed on the real code; the two-way link invariant is evaluated on the public views after every execution.",
         "Bounded: N<=4(5) nodes, <=2(3) hook exceptions per call, hooks only raise. Trusted: the harness's invariant evaluator and CPython.", E1T + "; invariant on every post-state"),
 "C02": ("E1", "Every (reachable forest, call) pair incl. invalid arguments and constructor calls is executed on the real code in lock-step with a declarative reference model; outcome class and the complete parent/children map must agree.",
         "Bounded: N<=4(5). Trusted: the SpecModel (written from the statement).", "explicit-state BFS over mutation histories; lock-step comparison with a reference model on every transition"),
 "C03": ("E1", "Every refusal and every position of a raising pre hook (once, with a second fault, persistently) from every reachable forest; the forest after the call must equal the forest before. Known findings are matched by selector and exact damage.",
         "Bounded as C01. Trusted: AsIsModel only for recognising known findings (it never makes a run pass that satisfies no listed selector).", E1T + "; state-equality oracle, exact known-finding matcher"),
 "C04": ("E2+E1", "All ordered trees up to 7(8) nodes: every navigation attribute and util helper of every node/pair/triple against definitions on an index model; plus query-mutate-query-mutate-query histories from every reachable forest on the same live objects.",
         "Bounded sizes and history depth. Trusted: the index model.", E2T + " + explicit-state exploration of query/mutation histories"),
 "C05": ("E2", "All ordered trees up to 8(10) nodes x 5 classes x every start node x 5 iterators vs. orders computed from the definitions; exactly-once and no-modification checks.",
         "Bounded tree size. Trusted: the index model.", E2T),
 "C06": ("E2", "Full product of stop subsets x filtered-out subsets x maxlevel x start over all trees up to 6(7) nodes, bounded subsets beyond, for all five iterators vs. the reference restriction.",
         "Bounded tree size. Trusted: the reference restriction.", E2T),
 "C14": ("E2", "All trees up to 4-5 (5-6) nodes x attribute assignments x start x value x maxlevel x count-bound grid (incl. 0 and bounds equal to the match count) for the 4 search functions and their cachedsearch twins.",
         "Bounded sizes/alphabets; fastcache absent (pass-through decorator).", E2T),
 "C15": ("E2", "All trees up to 7(9) nodes and 2-3-tree forests: every ordered pair vs. independently computed ancestor chains; adjacency and mirror law.",
         "Bounded tree size.", E2T),
 "C16": ("E1", "Every (reachable forest, call) with hooks that snapshot the forest: exact hook log vs the specified sequence, monitor law between consecutive hook events, post-hook exceptions of parent assignments.",
         "Bounded: N<=4(5), <=1(2) hook faults. Trusted: SpecModel hook grammar.", E1T + "; exact hook-log comparison and snapshot monitor"),
}
PENDING_REASON = "check not built yet in this session (planned, see DESIGN.md section 5); will be claimed once it exists"


def main():
    here = os.path.dirname(os.path.dirname(os.path.abspath(__file__)))
    props = [json.loads(l)["id"] for l in open(os.path.join(here, "properties.jsonl"))]
    extra = {}
    p = os.path.join(here, "tools", "manifest_extra.json")
    if os.path.exists(p):
        extra = json.load(open(p))
    table = dict(CHECKS)
    for k, v in extra.get("checks", {}).items():
        table[k] = tuple(v)
    checks = []
    for pid in props:
        if pid not in table or not os.path.exists(os.path.join(here, "mc", "props", pid.lower() + ".py")):
            continue
        engine, text, note, tech = table[pid]
        checks.append({
            "property_id": pid, "quick_cmd": "./check %s --tier quick" % pid, "thorough_cmd": "./check %s --tier thorough" % pid,
            "evidence_file": "/verif/evidence/%s.json" % pid, "replay_cmd_template": "./check --replay {path}", "engine": engine,
            "level_claimed": {"category": "model_checking", "text": text, "design_ref": "DESIGN.md section 5, " + pid},
            "level_note": note, "technique": tech})
    claimed = {c["property_id"] for c in checks}
    m = {
        "version": 1,
        "setup_cmd": "./check --selftest",
        "hooks": {"guard": "none",
                  "enable": "no source hooks are needed: fault injection uses anytree's eight documented _pre_*/_post_* extension points through subclasses, the assertion switch is upstream's own ANYTREE_ASSERTIONS",
                  "baseline_off_cmd": "cd /repo && /venv/bin/python -m pytest -ra -q -p no:cacheprovider --timeout=900 --continue-on-collection-errors",
                  "source_commits": [], "add_only": True},
        "engines": [
            {"name": "E1", "path": "mc/forest.py mc/e1run.py mc/models.py", "serves_properties": sorted(p for p in claimed if "E1" in table[p][0]),
             "kind_free_text": "explicit-state forest explorer on the real node classes with deviation-bounded hook-fault injection"},
            {"name": "E2", "path": "mc/tree.py mc/props/*.py", "serves_properties": sorted(p for p in claimed if "E2" in table[p][0]),
             "kind_free_text": "bounded-exhaustive shape/configuration enumerator against reference models"},
            {"name": "E3", "path": "mc/props/c08.py", "serves_properties": sorted(p for p in claimed if "E3" in table[p][0]),
             "kind_free_text": "breadth-first explorer over glob call histories (shared pattern cache states)"}],
        "checks": checks,
        "not_applicable": [{"property_id": p, "reason": extra.get("not_applicable", {}).get(p, PENDING_REASON)} for p in props if p not in claimed],
        "notes": "All checks are bounded exhaustive explorations of the real code (see DESIGN.md). fix: commits in /repo: bf565aa 12814cc f767247 ef920f5 5a914b0 (recorded in known_findings.json).",
    }
    with open(os.path.join(here, "MANIFEST.json"), "w") as f:
        json.dump(m, f, indent=1)
        f.write("\n")
    print("claimed:", " ".join(sorted(claimed)))


main()
