#!/usr/bin/env python3
"""Regenerate /verif/MANIFEST.json from the table below (keeps the file valid and in sync with mc/props)."""
import json, os

E1T = "explicit-state BFS over mutation histories of the real classes + deviation-bounded hook-fault enumeration"
E2T = "bounded-exhaustive enumeration of inputs/configurations of the real code against a reference model"
CHECKS = {
 "C01": ("E1", "Every reachable forest state (keyed by links plus a hidden-state fingerprint) of 3-4 (5 thorough) labelled nodes of 12 class universes x every structural call x every hook-fault plan (<=2 (3) one-shot faults of 4-9 exception classes, persistent vetoes) x both assertion settings, plus two-step histories after an aborted call, hooks that read the forest and hooks that detach nodes re-entrantly, executed on the real code; the two-way link invariant (and termination) is evaluated on the public views after every execution.",
         "Bounded: N<=4(5) nodes, <=2(3) hook exceptions per call, hooks only raise. Trusted: the harness's invariant evaluator and CPython.", E1T + "; invariant on every post-state"),
 "C02": ("E1", "Every (reachable forest, call) pair incl. invalid arguments and constructor calls is executed on the real code in lock-step with a declarative reference model; outcome class and the complete parent/children map must agree.",
         "Bounded: N<=4(5). Trusted: the SpecModel (written from the statement).", "explicit-state BFS over mutation histories; lock-step comparison with a reference model on every transition"),
 "C03": ("E1", "Every refusal and every position of a raising pre hook (once, with a second fault, persistently; several exception classes) from every reachable forest, also as second step after an aborted call; the forest after the call must equal the forest before. Known findings are matched by selector and exact damage.",
         "Bounded as C01. Trusted: AsIsModel only for recognising known findings (it never makes a run pass that satisfies no listed selector).", E1T + "; state-equality oracle, exact known-finding matcher"),
 "C04": ("E2+E1", "All ordered trees up to 7(8) nodes: every navigation attribute and util helper of every node/pair/triple against definitions on an index model; plus query-mutate-query-mutate-query histories from every reachable forest on the same live objects.",
         "Bounded sizes and history depth. Trusted: the index model.", E2T + " + explicit-state exploration of query/mutation histories"),
 "C05": ("E2", "All ordered trees up to 8(10) nodes x 5 classes x every start node x 5 iterators vs. orders computed from the definitions; exactly-once and no-modification checks.",
         "Bounded tree size. Trusted: the index model.", E2T),
 "C06": ("E2", "Full product of stop subsets x filtered-out subsets x maxlevel x start over all trees up to 6(7) nodes, bounded subsets beyond, for all five iterators vs. the reference restriction.",
         "Bounded tree size. Trusted: the reference restriction.", E2T),
 "C07": ("E2", "All trees up to 3(4) nodes x name assignments incl. duplicates, case pairs, wildcard/regex characters and the other separator x start x every path of <=3 components (names, unknown, '..', '.', '') relative and absolute x ignorecase x relax x separator/pathattr classes, vs. a reference step interpreter (exact node / exact error class / None) plus the absolute-path and walk-path theorems.",
         "Bounded sizes and alphabets (ASCII case folding only). Trusted: the 20-line reference interpreter.", E2T),
 "C08": ("E2+E3", "Pattern semantics: all trees up to 3(4) nodes x names x start x patterns of <=3 components (names, '*', 'a*', '?', '**', '..', '.', '') x ignorecase x relax vs. a recursive reference with its own wildcard matcher (no re); strict-mode errors must be justified dead ends; agreement with get. Cache transparency: breadth-first search over glob call histories incl. fills that force eviction, every result compared with the cache-free reference.",
         "Bounded sizes/alphabets/history depth. '**' as root component excluded (statement silent).", E2T + "; explicit-state BFS over call histories of the shared pattern cache"),
 "C09": ("E2", "All trees up to 6(8) nodes x start x 7 styles x 6 childiters x every maxlevel: rows vs reference, tree shape re-decoded from the prefixes alone; str()/by_attr() layout for single/multi-line/empty/list/tuple values; Node/AnyNode/SymlinkNode reprs.",
         "Bounded tree size; equal-width styles.", E2T),
 "C10": ("E2", "All trees up to 3(4) nodes with every per-node attribute dictionary from a 5-element domain (rotations up to 5(7) nodes) x start x maxlevel x attriter x childiter x dictcls x nodecls: export vs reference serialisation (types and key order at every level), both round trips, arguments unmodified.",
         "Bounded sizes; attribute domain of 5 dictionaries.", E2T),
 "C11": ("E2", "All trees up to 3(4) nodes x JSON value domain (non-ASCII, control characters, nesting, None/bool/int/float extremes) x json options x maxlevel x custom dictexporter/dictimporter, in sequences of two exporter configurations: export == json.dumps(dict export), write == export, import_/read isomorphic.",
         "Bounded sizes/alphabets; floats compared by repr.", E2T),
 "C12": ("E2", "All trees up to 4(5) nodes x start x every stop subset x every filtered-out subset x maxlevel for DotExporter, UniqueDotExporter and RenderTreeGraph; text decoded by a line parser with un-escaper; names with quotes/backslashes/spaces/non-ASCII/collisions; custom functions, options, indent; re-iteration, interleaved iteration and iteration after tree growth on one exporter object.",
         "Bounded sizes/alphabets. Known finding D6 (edge to a directly stopped child) matched exactly.", E2T + " incl. short histories on one exporter object"),
 "C13": ("E2", "As C12 for MermaidExporter: header, options, node lines in pre-order, edges iff both ends declared, stable distinct ids within/across iterations (also after tree growth, filter change and interleaved iteration), label escaping, verbatim custom functions, to_file fence.",
         "Bounded sizes/alphabets.", E2T + " incl. short histories on one exporter object"),
 "C14": ("E2", "All trees up to 4-5 (5-6) nodes x attribute assignments x start x value x maxlevel x count-bound grid (incl. 0 and bounds equal to the match count) for the 4 search functions and their cachedsearch twins.",
         "Bounded sizes/alphabets; fastcache absent (pass-through decorator).", E2T),
 "C15": ("E2", "All trees up to 7(9) nodes and 2-3-tree forests: every ordered pair vs. independently computed ancestor chains; adjacency and mirror law.",
         "Bounded tree size.", E2T),
 "C17": ("E1+E2", "Seven adversarial archetypes (always-equal, never-equal, falsy, zero-length, unhashable, raising, all) on both mixins: E1 exploration in lock-step with the plain class (same outcomes, states, hook logs) and every query family of C04-C15 on all small shapes; every special-method invocation is recorded and must be zero.",
         "Bounded: N<=4 forests, shapes up to 4(5) nodes; the harness itself never applies ==, in, bool(), len(), hash() to nodes.", E1T + " in lock-step with a plain twin + " + E2T),
 "C18": ("E1+E2", "Every E1 transition and fault plan executed on a NodeMixin universe and a LightNodeMixin universe in lock-step (outcome class, state, hook log), and the complete query vector (navigation, iterators, walker, resolver, render) on every reached state and all small shapes.",
         "Bounded: N<=4(5), <=1(2) hook faults, tree-node arguments only.", E1T + "; differential lock-step of the two mixins"),
 "C19": ("E2", "All trees up to 3(4) nodes x class assignment per node (Node, AnyNode, user NodeMixin, falsy user class, SymlinkNode with every target incl. link-to-link and cross-tree) and LightNodeMixin trees x every entry node x pickle protocols 0-5 + deepcopy: isomorphism, position, disjointness, C01 invariant, symlink targets, and every single structural op applied to the copy/original leaves the other untouched and consistent.",
         "Bounded sizes; recursion depth far below the interpreter limit.", E2T + " + one-step mutation exploration of every copy"),
 "C20": ("E1", "Symlink universe (2 nodes, link, link-to-link, cross links): full E1 exploration with C01-C03 oracles and target-independence; from every forest state all interleavings of length <=3 of attribute writes (through link / on target), structural calls and reads with the relational oracle getattr(link, x) == getattr(target, x).",
         "Bounded: N<=5, interleavings <=3, attribute names {foo, bar, name, __tag__, godparent, target_id, baz, nope}.", E1T + "; relational attribute oracle over all interleavings"),
 "C16": ("E1", "Every (reachable forest, call) with hooks that snapshot the forest: exact hook log vs the specified sequence, monitor law between consecutive hook events, post-hook exceptions of parent assignments.",
         "Bounded: N<=4(5), <=1(2) hook faults. Trusted: SpecModel hook grammar.", E1T + "; exact hook-log comparison and snapshot monitor"),
}
PENDING_REASON = "check not built yet in this session (planned, see DESIGN.md section 5); will be claimed once it exists"


def main():
    here = os.path.dirname(os.path.dirname(os.path.abspath(__file__)))
    props = [json.loads(l)["id"] for l in open(os.path.join(here, "properties.jsonl"))]
    extra = {}
    p = os.path.join(here, "tools", "manifest_extra.json")
    if os.path.exists(p):
        extra = json.load(open(p))
    table = dict(CHECKS)
    for k, v in extra.get("checks", {}).items():
        table[k] = tuple(v)
    checks = []
    for pid in props:
        if pid not in table or not os.path.exists(os.path.join(here, "mc", "props", pid.lower() + ".py")):
            continue
        engine, text, note, tech = table[pid]
        checks.append({
            "property_id": pid, "quick_cmd": "./check %s --tier quick" % pid, "thorough_cmd": "./check %s --tier thorough" % pid,
            "evidence_file": "/verif/evidence/%s.json" % pid, "replay_cmd_template": "./check --replay {path}", "engine": engine,
            "level_claimed": {"category": "model_checking", "text": text, "design_ref": "DESIGN.md section 5, " + pid},
            "level_note": note, "technique": tech})
    claimed = {c["property_id"] for c in checks}
    m = {
        "version": 1,
        "setup_cmd": "./check --selftest",
        "hooks": {"guard": "none",
                  "enable": "no source hooks are needed: fault injection uses anytree's eight documented _pre_*/_post_* extension points through subclasses, the assertion switch is upstream's own ANYTREE_ASSERTIONS",
                  "baseline_off_cmd": "cd /repo && /venv/bin/python -m pytest -ra -q -p no:cacheprovider --timeout=900 --continue-on-collection-errors",
                  "source_commits": [], "add_only": True},
        "engines": [
            {"name": "E1", "path": "mc/forest.py mc/e1run.py mc/models.py", "serves_properties": sorted(p for p in claimed if "E1" in table[p][0]),
             "kind_free_text": "explicit-state forest explorer on the real node classes with deviation-bounded hook-fault injection"},
            {"name": "E2", "path": "mc/tree.py mc/props/*.py", "serves_properties": sorted(p for p in claimed if "E2" in table[p][0]),
             "kind_free_text": "bounded-exhaustive shape/configuration enumerator against reference models"},
            {"name": "E3", "path": "mc/props/c08.py", "serves_properties": sorted(p for p in claimed if "E3" in table[p][0]),
             "kind_free_text": "breadth-first explorer over glob call histories (shared pattern cache states)"}],
        "checks": checks,
        "not_applicable": [{"property_id": p, "reason": extra.get("not_applicable", {}).get(p, PENDING_REASON)} for p in props if p not in claimed],
        "notes": "All checks are bounded exhaustive explorations of the real code (see DESIGN.md). Each also contains a few fixed inputs that no small-shape enumeration reaches (one deep chain and one wide node per property, positional calls in the released parameter order); these few dozen evaluations are listed separately in the evidence counters (capacity_checks, deep_chain_*, positional_calls). A run whose state discovery hits its size cap is reported as a harness error, never as exhaustive. fix: commits in /repo: bf565aa 12814cc f767247 ef920f5 5a914b0 190c402 6a388ac f8bc743 669f285 a7275ea 0c4c0a4 b225706 (recorded in known_findings.json).",
    }
    with open(os.path.join(here, "MANIFEST.json"), "w") as f:
        json.dump(m, f, indent=1)
        f.write("\n")
    print("claimed:", " ".join(sorted(claimed)))


main()
