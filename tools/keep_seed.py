#!/usr/bin/env python3
"""tools/keep_seed.py <seed-id> <patch> <demo> <property> <caught-by comma list | none> <needs...>
Stores a confirmed seeded change under /verif/seeded/<seed-id>/ (patch.diff, demo.py, meta.json)."""
import json, os, shutil, sys
sid, patch, demo, prop, caught = sys.argv[1:6]
needs = " ".join(sys.argv[6:])
d = os.path.join("/verif/seeded", sid)
os.makedirs(d, exist_ok=True)
shutil.copy(patch, os.path.join(d, "patch.diff"))
shutil.copy(demo, os.path.join(d, "demo.py"))
meta = {
    "id": sid,
    "breaks_property": prop,
    "needs_to_manifest": needs,
    "origin": "written by an independent sub-agent that saw only the property text and a scratch worktree",
    "confirmed": {
        "applies_to": "git -C /repo HEAD (with the fix: commits)",
        "upstream_suite_with_change": "160 passed, 3 failed (the 3 baseline graphviz failures), also with ANYTREE_ASSERTIONS=1",
        "demo": "exit 0 on the clean tree, exit 1 with the change (ANYTREE_ROOT=<tree> python demo.py)",
        "how": "tools/try_seed.sh seeded/%s %s" % (sid, prop),
    },
    "caught_by_quick_checks": [] if caught == "none" else caught.split(","),
}
json.dump(meta, open(os.path.join(d, "meta.json"), "w"), indent=1)
print("kept", d)
