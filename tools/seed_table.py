#!/usr/bin/env python3
"""Print the markdown table of seeded changes (from seeded/*/meta.json); used for DESIGN.md section 8."""
import glob, json, os
rows = []
for p in sorted(glob.glob("/verif/seeded/*/meta.json")):
    m = json.load(open(p))
    rows.append((m["breaks_property"], m["id"], m["needs_to_manifest"], ", ".join(m.get("caught_by_quick_checks") or ["-"]), m.get("note", "")))
print("| property | seeded change | what it needs in order to manifest | caught by (quick tier) |")
print("|---|---|---|---|")
for r in rows:
    print("| %s | `%s` | %s%s | %s |" % (r[0], r[1], r[2].replace("|", "\\|"), (" — " + r[4]) if r[4] else "", r[3]))
print()
print("%d seeded changes, %d caught." % (len(rows), sum(1 for r in rows if r[3] != "-")))
