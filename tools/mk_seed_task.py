#!/usr/bin/env python3
"""Write the task file for a seeding sub-agent: property text + scratch worktree, nothing from /verif."""
import json, sys
wave, pid = sys.argv[1], sys.argv[2]
wt = "/tmp/wt/%s_%s" % (wave, pid)
out = "/tmp/seedout/%s_%s" % (wave, pid)
extra = sys.argv[3] if len(sys.argv) > 3 else ""
for line in open("/verif/properties.jsonl"):
    p = json.loads(line)
    if p["id"] == pid:
        break
else:
    raise SystemExit("no such property")
txt = """# Task: seed a realistic property-breaking regression into anytree

You work ONLY inside your own scratch git worktree of the Python library `anytree`:

    {wt}

(never touch /repo, never read or write anything under /verif, never read other directories under /tmp/wt or /tmp/seedout).
Write your deliverables to `{out}/`.

## The property (a semantic guarantee users of anytree rely on)

**{title}**

{statement}

*Holds for:* {quant}

## What to produce

Produce TWO different, independent changes (A and B) to the library source under `{wt}/anytree/` such that each one:

1. **breaks the property above** (some input / operation history / configuration exists for which the statement is false with your change and true without it);
2. still imports fine and **passes the existing test-suite unchanged**: run
   `cd {wt} && /venv/bin/python -m pytest -q -p no:cacheprovider`
   — the baseline on the untouched worktree is `160 passed, 3 failed` where the 3 failures are `tests/test_dotexport.py::{{test_tree1,test_tree2,test_tree_png}}` (graphviz is not installed; they always fail). With your change the result must be exactly the same 160 passed / same 3 failed. Do not edit anything under `tests/`. Also run it once with `ANYTREE_ASSERTIONS=1` in the environment: still the same result.
3. **needs something specific to manifest** — a multi-step sequence of operations, an unusual-but-legal input, a particular combination of options, a fault (a user hook raising) at a particular point, or two cooperating sites that each look fine alone. NOT something that ordinary use exposes at once. Think of a plausible refactoring slip, "optimisation", off-by-one, wrong truthiness test, caching, reordering of two statements, copy-paste between the two mixins, etc. — the kind of change a maintainer could really make and that code review plus the existing tests would let through. No sabotage that is obviously malicious (no `if name == "magic"`), no randomness, no time dependence.
4. comes with a **demonstration**: a small standalone Python program `demoA.py` / `demoB.py` that imports anytree from the directory given in the environment variable `ANYTREE_ROOT` (do `import os, sys; sys.path.insert(0, os.environ["ANYTREE_ROOT"])` before importing anytree), prints what it observes, and exits with status 1 if the property is violated and 0 if it holds. It must exit 1 on your changed worktree and 0 on the untouched code (check the latter with `git diff > /tmp/seedout/<yours>/p.diff; git checkout -- anytree; ...; git apply p.diff` — do NOT use `git stash`: the stash is shared by all worktrees of this repository and other people work in sibling worktrees).
{extra}
## Deliverables (in `{out}/`)

* `patchA.diff`, `patchB.diff` — each made with `git diff` against the untouched worktree HEAD, containing ONLY that one change (the two patches must apply independently to a clean checkout: `git apply patchA.diff`).
* `demoA.py`, `demoB.py` — as above.
* `notes.md` — for each change: which clause of the property it breaks, what exactly is needed for it to manifest (the minimal failing scenario), why the existing tests do not notice, and the commands you ran with their results (pytest summary line with the change, demo exit codes with and without the change).

When done, leave the worktree clean (`git checkout -- . && git status --short` shows nothing) — the patches in `{out}/` are what counts. Your final answer should be a 5-10 line summary of the two changes.
""".format(wt=wt, out=out, title=p["title"], statement=p["statement"], quant=p["quantifier"]["text"], extra=extra)
open(out + "/TASK.md", "w").write(txt)
print(out + "/TASK.md")
