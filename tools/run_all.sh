#!/bin/bash
# tools/run_all.sh [quick|thorough] [seed]  - every check once; prints exit code, wall time, digest
TIER=${1:-quick}; SEED=${2:-0}
cd /verif
for i in $(seq -w 1 20); do
  id=C$i; t0=$(date +%s.%N)
  out=$(VERIF_SEED=$SEED timeout ${LIMIT:-7200} ./check $id --tier $TIER 2>&1); rc=$?
  t1=$(date +%s.%N)
  printf "%s rc=%d %6.1fs %s %s\n" $id $rc $(echo "$t1 - $t0" | bc) "$(echo "$out" | grep -o 'digest=[0-9a-f]*')" "$(echo "$out" | grep -c '^KNOWN-FINDING')kf $(echo "$out" | grep -m1 'VIOLATION\|HARNESS')"
done
