#!/usr/bin/env python3
"""tools/update_meta_from_regress.py <regress output>: record in seeded/*/meta.json which quick checks report each stored
change NOW (lines 'seed-id Cxx:rc=1 ...' written by tools/regress_seeds.sh).  First-version statistics are kept as they are."""
import json, re, sys
for line in open(sys.argv[1]):
    parts = line.split()
    if not parts or "PATCH-DOES-NOT-APPLY" in line:
        if parts:
            print("does not apply:", parts[0])
        continue
    sid = parts[0]
    caught = [m.group(1) for p in parts[1:] for m in [re.match(r"(C\d+):rc=1$", p)] if m]
    missed = [p for p in parts[1:] if not p.endswith(":rc=1")]
    path = "/verif/seeded/%s/meta.json" % sid
    try:
        m = json.load(open(path))
    except OSError:
        continue
    cur = list(m.get("caught_by_quick_checks") or [])
    new = cur + [c for c in caught if c not in cur]
    if missed:
        print("NOT caught:", sid, missed)
    if new != cur:
        m["caught_by_quick_checks"] = new
        if not cur:
            m["caught_only_after_strengthening"] = True
        json.dump(m, open(path, "w"), indent=1)
        print("updated", sid, new)
