#!/bin/bash
# tools/regress_seeds.sh [pattern]: every stored seeded change against the quick check of the property it breaks
# (plus the checks recorded as catching it, if the own one is not among them). Prints one line per seed.
# SEEDS_FILE=<file with one seed id per line> selects seeds by list.  Nothing is written to /repo or to /verif/evidence.
cd /verif
for d in $(if [ -n "${SEEDS_FILE:-}" ]; then sed "s#^#seeded/#; s#\$#/#" "$SEEDS_FILE"; else ls -d seeded/${1:-*}/; fi); do
  sid=$(basename $d)
  prop=$(/venv/bin/python -c "import json;print(json.load(open('$d/meta.json'))['breaks_property'])")
  caught=$(/venv/bin/python -c "import json;m=json.load(open('$d/meta.json'));c=m.get('caught_by_quick_checks') or [];print(' '.join(c if m['breaks_property'] in c else c[:1]))")
  ids="$prop"; [ -n "$caught" ] && [[ " $caught " != *" $prop "* ]] && ids="$caught"
  WT=$(mktemp -d /tmp/regwt.XXXXXX); rmdir $WT; OUT=$(mktemp -d /tmp/regout.XXXXXX)
  git -C /repo worktree add -q --detach $WT HEAD
  if (cd $WT && git apply $OLDPWD/$d/patch.diff 2>/dev/null); then
    res=""
    for id in $ids; do
      VERIF_REPO=$WT VERIF_EVIDENCE_DIR=$OUT/ev VERIF_OUT=$OUT timeout 1500 ./check $id > $OUT/log 2>&1; res="$res $id:rc=$?"
    done
    echo "$sid$res"
  else
    echo "$sid PATCH-DOES-NOT-APPLY"
  fi
  git -C /repo worktree remove --force $WT; rm -rf $OUT
done
