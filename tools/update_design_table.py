#!/usr/bin/env python3
import subprocess, re
tab = subprocess.check_output(["python3", "/verif/tools/seed_table.py"]).decode()
p = "/verif/DESIGN.md"
s = open(p).read()
s = re.sub(r"<!-- SEED-TABLE-BEGIN -->.*?<!-- SEED-TABLE-END -->", "<!-- SEED-TABLE-BEGIN -->\n" + tab.replace("\\", "\\\\") + "<!-- SEED-TABLE-END -->", s, flags=re.S)
open(p, "w").write(s)
